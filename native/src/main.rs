//! Native validation of the environment models used by the Kani harnesses (DESIGN.md 3.6). Run by `bin/setup`.
//! (a) the PSRLQ model against the hardware instruction; (b) the fixed-capacity map model against std::HashMap.
//! Randomness is used here only (a deterministic LCG); no check verdict depends on it.
#[path = "../../harness/psrlq.rs"]
mod psrlq;
#[path = "../../harness/verif_map.rs"]
mod verif_map;

struct Lcg(u64);
impl Lcg {
	fn next(&mut self) -> u64 { self.0 = self.0.wrapping_mul(6364136223846793005).wrapping_add(1442695040888963407); self.0 >> 11 ^ self.0 << 32 }
}

#[cfg(target_arch = "x86_64")]
fn psrlq() -> usize {
	use std::arch::x86_64::*;
	let mut r = Lcg(1);
	let mut n = 0;
	let counts: [u64; 14] = [0, 1, 7, 8, 31, 32, 33, 46, 62, 63, 64, 65, 1 << 32, u64::MAX];
	for round in 0..20000 {
		let a: [u64; 2] = [r.next(), r.next()];
		let c0 = if round % 3 == 0 { r.next() % 70 } else { counts[(r.next() % 14) as usize] };
		let c: [u64; 2] = [c0, r.next()];
		unsafe {
			let va: __m128i = std::mem::transmute(a);
			let vc: __m128i = std::mem::transmute(c);
			let hw: [u64; 2] = std::mem::transmute(_mm_srl_epi64(va, vc));
			let md: [u64; 2] = std::mem::transmute(psrlq::model_mm_srl_epi64(va, vc));
			assert_eq!(hw, md, "PSRLQ model differs from hardware for a={:x?} count={:x?}", a, c);
		}
		n += 1;
	}
	n
}
#[cfg(not(target_arch = "x86_64"))]
fn psrlq() -> usize { 0 }

fn maps() -> usize {
	let mut r = Lcg(7);
	let mut n = 0;
	for _ in 0..3000 {
		let mut m: verif_map::HashMap<u64, u64> = Default::default();
		let mut s: std::collections::HashMap<u64, u64> = Default::default();
		for _ in 0..24 {
			let k = r.next() % 4;
			let v = r.next() % 100;
			// the model has capacity CAP: keep the reference within it
			let full = s.len() >= verif_map::CAP && !s.contains_key(&k);
			match r.next() % 9 {
				0 | 1 => if !full { assert_eq!(m.insert(k, v), s.insert(k, v)); },
				2 => assert_eq!(m.remove(&k), s.remove(&k)),
				3 => assert_eq!(m.get(&k), s.get(&k)),
				4 => if !full {
					use std::collections::hash_map::Entry as SE;
					let a = match m.entry(k) { verif_map::Entry::Occupied(mut e) => { let old = *e.get(); *e.get_mut() = old + 1; old }, verif_map::Entry::Vacant(e) => { e.insert(v); u64::MAX } };
					let b = match s.entry(k) { SE::Occupied(mut e) => { let old = *e.get(); *e.get_mut() = old + 1; old }, SE::Vacant(e) => { e.insert(v); u64::MAX } };
					assert_eq!(a, b);
				},
				5 => if !full { *m.entry(k).or_default() += v; *s.entry(k).or_default() += v; },
				6 => {
					if let verif_map::Entry::Occupied(e) = m.entry(k) { if *e.get() % 2 == 0 { e.remove_entry(); } }
					if let std::collections::hash_map::Entry::Occupied(e) = s.entry(k) { if *e.get() % 2 == 0 { e.remove_entry(); } }
				},
				7 => { m.retain(|_, x| *x % 3 != 0); s.retain(|_, x| *x % 3 != 0); },
				_ => { if let Some(x) = m.get_mut(&k) { *x ^= 1; } if let Some(x) = s.get_mut(&k) { *x ^= 1; } },
			}
			assert_eq!(m.len(), s.len());
			assert_eq!(m.is_empty(), s.is_empty());
			let mut a: Vec<(u64, u64)> = m.iter().map(|(k, v)| (*k, *v)).collect();
			let mut b: Vec<(u64, u64)> = s.iter().map(|(k, v)| (*k, *v)).collect();
			a.sort(); b.sort();
			assert_eq!(a, b, "iteration visits exactly the live pairs");
			let mut a: Vec<u64> = m.values().cloned().collect();
			let mut b: Vec<u64> = s.values().cloned().collect();
			a.sort(); b.sort();
			assert_eq!(a, b);
			n += 1;
		}
		let mut a: Vec<(u64, u64)> = m.into_iter().collect();
		let mut b: Vec<(u64, u64)> = s.into_iter().collect();
		a.sort(); b.sort();
		assert_eq!(a, b);
	}
	n
}

fn main() {
	let p = psrlq();
	let m = maps();
	println!("stub validation: PSRLQ model == hardware on {} cases; verif_map == std::HashMap on {} operations", p, m);
}
