use parity_db::{ColumnOptions, Db, NewNode, NodeRef, Operation, Options};
use std::io::Write;

fn opts(path: &std::path::Path, col: ColumnOptions) -> Options {
	let mut o = Options::with_columns(path, 1);
	o.columns[0] = col;
	o
}

#[test]
fn c01_uniform_long_key() {
	let d = tempfile::tempdir().unwrap();
	let o = opts(d.path(), ColumnOptions { uniform: true, ..Default::default() });
	let db = Db::open_or_create(&o).unwrap();
	let k = [7u8; 33];
	let r = std::panic::catch_unwind(std::panic::AssertUnwindSafe(|| db.get(0, &k)));
	println!("C01 uniform 33-byte key get: panicked={}", r.is_err());
	assert!(r.is_ok());
}

#[test]
fn c08_partial_publication() {
	let d = tempfile::tempdir().unwrap();
	let o = opts(d.path(), ColumnOptions::default());
	let db = Db::open_or_create(&o).unwrap();
	let r = db.commit_changes(vec![
		(0u8, Operation::Set(b"key1".to_vec(), b"value1".to_vec())),
		(0u8, Operation::Reference(b"key1".to_vec())),
	]);
	println!("C08 commit result: {:?}", r.as_ref().err().map(|e| e.to_string()));
	assert!(r.is_err());
	let v = db.get(0, b"key1").unwrap();
	println!("C08 get after failed commit: {:?}", v);
	assert!(v.is_none());
}

#[test]
fn c10_256_children() {
	let d = tempfile::tempdir().unwrap();
	let o = opts(d.path(), ColumnOptions { multitree: true, append_only: true, ..Default::default() });
	let db = Db::open_or_create(&o).unwrap();
	let children: Vec<NodeRef> = (0..256).map(|i| NodeRef::New(NewNode { data: vec![i as u8], children: vec![] })).collect();
	let node = NewNode { data: b"root".to_vec(), children };
	let r = db.commit_changes(vec![(0u8, Operation::InsertTree(b"r".to_vec(), node))]);
	println!("C10 commit result: {:?}", r.as_ref().err().map(|e| e.to_string()));
	if r.is_ok() {
		let root = db.get_root(0, b"r").unwrap();
		let (data, ch) = root.expect("root");
		println!("C10 root data len {} children {}", data.len(), ch.len());
		assert_eq!(ch.len(), 256);
		assert_eq!(data, b"root".to_vec());
	}
}

#[test]
fn c13_bad_size_in_log() {
	let d = tempfile::tempdir().unwrap();
	let o = opts(d.path(), ColumnOptions::default());
	{
		let db = Db::open_or_create(&o).unwrap();
		db.commit(vec![(0u8, b"a".to_vec(), Some(b"b".to_vec()))]).unwrap();
	}
	// craft a log file: BEGIN id=1, INSERT_VALUE table 0/0 index 5, size bytes ff 7f
	let mut f = std::fs::File::create(d.path().join("log0")).unwrap();
	let mut b = vec![1u8];
	b.extend_from_slice(&1u64.to_le_bytes());
	b.push(3);
	b.extend_from_slice(&0u16.to_le_bytes());
	b.extend_from_slice(&5u64.to_le_bytes());
	b.extend_from_slice(&[0xff, 0x7f]);
	b.extend_from_slice(&[0u8; 64]);
	f.write_all(&b).unwrap();
	drop(f);
	let r = std::panic::catch_unwind(|| Db::open(&o).map(|_| ()));
	println!("C13 open with crafted log: panicked={} res={:?}", r.is_err(), r.as_ref().ok().map(|r| r.as_ref().err().map(|e| e.to_string())));
	assert!(r.is_ok());
	let db = Db::open(&o).unwrap();
	assert_eq!(db.get(0, b"a").unwrap(), Some(b"b".to_vec()));
}
