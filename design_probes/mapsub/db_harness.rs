use super::*;

pub fn fmt_stub(_a: std::fmt::Arguments<'_>) -> String { String::new() }

fn key(b: u8) -> Key { let mut k = [0u8; 32]; k[0] = b; k[9] = b; k }

fn any_op(k: Key) -> Operation<Key, RcValue> {
	let which: u8 = kani::any();
	kani::assume(which < 3);
	if which == 0 { let v: u8 = kani::any(); Operation::Set(k, vec![v].into()) }
	else if which == 1 { Operation::Dereference(k) }
	else { Operation::Reference(k) }
}

fn peek(o: &CommitOverlay, k: &Key) -> (bool, bool, u8, u64) {
	match o.indexed.get(k) {
		None => (false, false, 0, 0),
		Some((id, None)) => (true, false, 0, *id),
		Some((id, Some(v))) => (true, true, v.value()[0], *id),
	}
}

#[kani::proof]
#[kani::unwind(34)]
#[kani::stub(alloc::fmt::format, fmt_stub)]
fn c08_copy_to_overlay_all_or_nothing() {
	let ref_counted: bool = kani::any();
	let mut opts = Options::with_columns(std::path::Path::new(""), 1);
	opts.columns[0].ref_counted = ref_counted;
	let mut overlay = CommitOverlay::new();
	let before1 = peek(&overlay, &key(1));
	let before2 = peek(&overlay, &key(2));
	let mut cs = IndexedChangeSet::new(0);
	cs.changes.push(any_op(key(1)));
	cs.changes.push(any_op(key(2)));
	let mut bytes = 0usize;
	let r = cs.copy_to_overlay(&mut overlay, 2, &mut bytes, &opts);
	let failed = r.is_err();
	std::mem::forget(r);
	kani::cover!(failed);
	kani::cover!(!failed);
	if failed {
		assert!(peek(&overlay, &key(1)) == before1);
		assert!(peek(&overlay, &key(2)) == before2);
	}
	std::mem::forget(overlay);
	std::mem::forget(cs);
	std::mem::forget(opts);
}
