use parity_db::{ColumnOptions, Db, Options};
use std::io::Write;

fn opts(path: &std::path::Path) -> Options {
	let mut o = Options::with_columns(path, 1);
	o.columns[0] = ColumnOptions::default();
	o
}

fn write_log(dir: &std::path::Path, body: &[u8]) {
	// record: 01 <id 8> body 04 <crc32 of everything before the checksum>
	let mut b = vec![1u8];
	b.extend_from_slice(&2u64.to_le_bytes());
	b.extend_from_slice(body);
	b.push(4);
	let mut h = crc32fast::Hasher::new();
	h.update(&b);
	let c = h.finalize();
	b.extend_from_slice(&c.to_le_bytes());
	let mut f = std::fs::File::create(dir.join("log0")).unwrap();
	f.write_all(&b).unwrap();
}

fn setup() -> tempfile::TempDir {
	let d = tempfile::tempdir().unwrap();
	let o = opts(d.path());
	{
		let db = Db::open_or_create(&o).unwrap();
		db.commit(vec![(0u8, b"a".to_vec(), Some(b"b".to_vec()))]).unwrap();
	}
	d
}

#[test]
fn drop_table_of_missing_column() {
	let d = setup();
	// DROP_TABLE (5) for index table of column 7, 16 bits
	let id: u16 = (7u16 << 8) | 16;
	let mut body = vec![5u8];
	body.extend_from_slice(&id.to_le_bytes());
	write_log(d.path(), &body);
	let o = opts(d.path());
	let r = std::panic::catch_unwind(|| Db::open(&o).map(|_| ()));
	println!("drop_table: panicked={} {:?}", r.is_err(), r.as_ref().ok().map(|x| x.as_ref().err().map(|e| e.to_string())));
	assert!(r.is_ok(), "Db::open panicked on a checksum-valid record dropping a table of a missing column");
}

#[test]
fn index_chunk_out_of_range() {
	let d = setup();
	// INSERT_INDEX (2) table = col 0 / 16 bits, chunk index = 65536 (== total_chunks, < total_entries), mask = 1, one entry
	let id: u16 = 16;
	let mut body = vec![2u8];
	body.extend_from_slice(&id.to_le_bytes());
	body.extend_from_slice(&((1u64 << 16) + 5).to_le_bytes());
	body.extend_from_slice(&1u64.to_le_bytes());
	body.extend_from_slice(&0xdeadbeefu64.to_le_bytes());
	write_log(d.path(), &body);
	let o = opts(d.path());
	let r = std::panic::catch_unwind(|| Db::open(&o).map(|_| ()));
	println!("index chunk: panicked={} {:?}", r.is_err(), r.as_ref().ok().map(|x| x.as_ref().err().map(|e| e.to_string())));
	assert!(r.is_ok());
	// the committed value must still be there and nothing of the forged record applied
	let db = Db::open(&o).unwrap();
	assert_eq!(db.get(0, b"a").unwrap(), Some(b"b".to_vec()));
}

#[test]
fn ref_count_entry_on_plain_column() {
	let d = setup();
	// INSERT_REF_COUNT (6) table = col 0 / 16 bits, chunk 0, mask 0
	let id: u16 = 16;
	let mut body = vec![6u8];
	body.extend_from_slice(&id.to_le_bytes());
	body.extend_from_slice(&0u64.to_le_bytes());
	body.extend_from_slice(&0u64.to_le_bytes());
	write_log(d.path(), &body);
	let o = opts(d.path());
	let r = std::panic::catch_unwind(|| Db::open(&o).map(|_| ()));
	println!("ref count: panicked={}", r.is_err());
	assert!(r.is_ok());
	let db = Db::open(&o).unwrap();
	assert_eq!(db.get(0, b"a").unwrap(), Some(b"b".to_vec()));
}
