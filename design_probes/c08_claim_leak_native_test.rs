// A transaction on a multitree column that is refused AFTER one of its InsertTree operations was processed must leave
// no trace: the next accepted insertion must get the same node addresses as in a database that never saw the refused one.
use parity_db::{ColumnOptions, Db, NewNode, NodeRef, Operation, Options};

fn options(name: &str) -> Options {
	let mut path: std::path::PathBuf = env!("CARGO_MANIFEST_DIR").into();
	path.push("target");
	path.push(format!("tmpdb-c08-{}-{}", name, std::process::id()));
	if path.exists() { std::fs::remove_dir_all(&path).unwrap(); }
	std::fs::create_dir_all(&path).unwrap();
	let mut o = Options::with_columns(&path, 1);
	o.columns[0] = ColumnOptions { multitree: true, append_only: false, allow_direct_node_access: true, ..Default::default() };
	o
}
fn tree() -> NewNode {
	NewNode { data: b"root".to_vec(), children: vec![
		NodeRef::New(NewNode { data: b"child-1".to_vec(), children: vec![] }),
		NodeRef::New(NewNode { data: b"child-2".to_vec(), children: vec![] }),
	] }
}
fn children_after(name: &str, refused_first: bool) -> Vec<u64> {
	let o = options(name);
	let db = Db::open_or_create(&o).unwrap();
	if refused_first {
		// InsertTree is fine, the plain Set is not valid on a multitree column: the whole transaction is refused
		let r = db.commit_changes(vec![
			(0u8, Operation::InsertTree(b"refused".to_vec(), tree())),
			(0u8, Operation::Set(b"k".to_vec(), b"v".to_vec())),
		]);
		assert!(r.is_err(), "the transaction must be refused");
		assert!(db.get_root(0, b"refused").unwrap().is_none(), "a refused tree is not readable");
	}
	db.commit_changes(vec![(0u8, Operation::InsertTree(b"accepted".to_vec(), tree()))]).unwrap();
	let (_data, children) = db.get_root(0, b"accepted").unwrap().unwrap();
	drop(db);
	children
}
#[test]
fn refused_transaction_consumes_no_node_slots() {
	let clean = children_after("clean", false);
	let after_refusal = children_after("refused", true);
	assert_eq!(clean, after_refusal, "node addresses handed out after a refused transaction differ: the refused transaction consumed storage");
}
