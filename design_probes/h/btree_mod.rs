use super::*;

pub fn fmt_stub(_a: std::fmt::Arguments<'_>) -> String { String::new() }

fn roundtrip(len: usize) {
	let bytes: [u8; 256] = kani::any();
	let addr: u64 = kani::any();
	kani::assume(addr != 0);
	let child: u64 = kani::any();
	let mut e = Entry::empty();
	e.write_child_index(Address::from_u64(child));
	e.write_separator(&bytes[..len], Address::from_u64(addr));
	let enc = e.encoded.inner_mut().clone();
	let expect = 8 + 8 + 1 + if len >= 255 { 4 } else { 0 } + len;
	assert!(enc.len() == expect, "C04.B3 encoded size");
	let mut d = Entry::from_encoded(enc);
	let c = d.read_child_index().unwrap();
	assert!(c.map(|a| a.as_u64()).unwrap_or(0) == child, "C04.B3 child index");
	let s = d.read_separator().unwrap();
	match s {
		Some(sep) => {
			assert!(sep.value.as_u64() == addr, "C04.B3 value address");
			assert!(sep.key.len() == len, "C04.B3 key length");
			let i: usize = kani::any();
			kani::assume(i < len);
			assert!(sep.key[i] == bytes[i], "C04.B3 key bytes");
			std::mem::forget(sep);
		},
		None => assert!(false, "C04.B3 separator lost"),
	}
	std::mem::forget(d); std::mem::forget(e);
}

#[kani::proof]
#[kani::unwind(300)]
#[kani::stub(alloc::fmt::format, fmt_stub)]
fn c04_separator_codec_254() { roundtrip(254) }
#[kani::proof]
#[kani::unwind(300)]
#[kani::stub(alloc::fmt::format, fmt_stub)]
fn c04_separator_codec_255() { roundtrip(255) }
#[kani::proof]
#[kani::unwind(300)]
#[kani::stub(alloc::fmt::format, fmt_stub)]
fn c04_separator_codec_1() { roundtrip(1) }
