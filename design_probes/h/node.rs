use super::*;

fn sep(k: Vec<u8>, a: u64) -> Separator {
	Separator { modified: false, separator: Some(SeparatorInner { key: k, value: Address::from_u64(a) }) }
}

// arbitrary sorted node with n one-byte keys (n symbolic via case split), strictly increasing
fn any_sorted_node(n: usize) -> (Node, [u8; 8]) {
	let ks: [u8; 8] = kani::any();
	let mut node = Node { separators: Default::default(), children: Default::default(), changed: false };
	let mut i = 0;
	while i < 8 {
		if i < n {
			if i > 0 { kani::assume(ks[i - 1] < ks[i]); }
			node.separators[i] = sep(vec![ks[i]], 1 + i as u64);
		}
		i += 1;
	}
	(node, ks)
}

#[kani::proof]
#[kani::unwind(10)]
fn c04_position() {
	let n: usize = kani::any();
	kani::assume(n <= 8);
	let mut c = 0;
	while c <= 8 {
		if c == n {
			let (node, ks) = any_sorted_node(c);
			let key: u8 = kani::any();
			let (at, i) = node.position(&[key]).unwrap();
			assert!(i <= c);
			if at { assert!(i < c && ks[i] == key); }
			else {
				if i < c { assert!(key < ks[i]); }
				if i > 0 { assert!(ks[i - 1] < key); }
			}
			std::mem::forget(node);
		}
		c += 1;
	}
}

#[kani::proof]
#[kani::unwind(10)]
fn c04_shift_from() {
	let (mut node, ks) = any_sorted_node(7);
	let from: usize = kani::any();
	kani::assume(from <= 7);
	let mut f = 0;
	while f <= 7 {
		if f == from {
			node.shift_from(f, false, false);
			assert!(node.separators[f].separator.is_none());
			let j: usize = kani::any();
			kani::assume(j < 7);
			let dst = if j < f { j } else { j + 1 };
			assert!(node.separators[dst].separator.as_ref().map(|s| s.key[0]) == Some(ks[j]));
		}
		f += 1;
	}
	std::mem::forget(node);
}
