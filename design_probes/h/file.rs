use super::*;

pub const FILE_BYTES: usize = 64 * 8;
pub static FILE0: parking_lot::RwLock<[u8; FILE_BYTES]> = parking_lot::const_rwlock([0u8; FILE_BYTES]);

pub fn new_file(id: TableId) -> TableFile {
	TableFile {
		map: RwLock::new(None),
		path: std::path::PathBuf::new(),
		capacity: AtomicU64::new(8),
		id,
	}
}

pub fn stub_read_at(_f: &TableFile, buf: &mut [u8], offset: u64) -> Result<()> {
	let offset = offset as usize;
	let g = FILE0.read();
	let n = buf.len();
	let mut k = 0;
	while k < n { buf[k] = g[offset + k]; k += 1; }
	Ok(())
}

pub fn stub_slice_at(_f: &TableFile, offset: u64, len: usize) -> MappedBytesGuard<'static> {
	let offset = offset as usize;
	parking_lot::RwLockReadGuard::map(FILE0.read(), |m| &m[offset..offset + len])
}

pub fn stub_write_at(_f: &TableFile, buf: &[u8], offset: u64) -> Result<()> {
	let offset = offset as usize;
	let mut g = FILE0.write();
	let n = buf.len();
	let mut k = 0;
	while k < n { g[offset + k] = buf[k]; k += 1; }
	Ok(())
}

// Single-threaded harness: a lock can never be contended, so the slow paths must be unreachable.
use std::time::Instant;
pub fn rw_lock_exclusive_slow(_l: &parking_lot::RawRwLock, _t: Option<Instant>) -> bool { panic!("contended lock in single-threaded harness") }
pub fn rw_unlock_exclusive_slow(_l: &parking_lot::RawRwLock, _f: bool) { panic!("contended lock in single-threaded harness") }
pub fn rw_lock_shared_slow(_l: &parking_lot::RawRwLock, _r: bool, _t: Option<Instant>) -> bool { panic!("contended lock in single-threaded harness") }
pub fn rw_unlock_shared_slow(_l: &parking_lot::RawRwLock) { panic!("contended lock in single-threaded harness") }
pub fn rw_lock_upgradable_slow(_l: &parking_lot::RawRwLock, _t: Option<Instant>) -> bool { panic!("contended lock in single-threaded harness") }
pub fn rw_unlock_upgradable_slow(_l: &parking_lot::RawRwLock, _f: bool) { panic!("contended lock in single-threaded harness") }
pub fn rw_upgrade_slow(_l: &parking_lot::RawRwLock, _t: Option<Instant>) -> bool { panic!("contended lock in single-threaded harness") }
pub fn rw_downgrade_slow(_l: &parking_lot::RawRwLock) { panic!("contended lock in single-threaded harness") }
pub fn rw_downgrade_to_upgradable_slow(_l: &parking_lot::RawRwLock) { panic!("contended lock in single-threaded harness") }
pub fn mx_lock_slow(_l: &parking_lot::RawMutex, _t: Option<Instant>) -> bool { panic!("contended lock in single-threaded harness") }
pub fn mx_unlock_slow(_l: &parking_lot::RawMutex, _f: bool) { panic!("contended lock in single-threaded harness") }

// std's per-process HashMap seed comes from getrandom(2) (FFI). HashMap semantics do not depend on the seed; fix it.
pub fn fixed_random_state() -> std::hash::RandomState { unsafe { std::mem::transmute::<[u64; 2], std::hash::RandomState>([0x0123456789abcdef, 0xfedcba9876543210]) } }
