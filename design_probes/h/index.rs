use super::*;
pub const PAGE_FILE: usize = META_SIZE + CHUNK_LEN; // only chunk 0 is backed
pub static mut IDX_FILE: [u8; PAGE_FILE] = [0u8; PAGE_FILE];
// An MmapMut over a static buffer (never dropped). Layout {ptr, len} is asserted, not assumed.
pub fn fake_map() -> memmap2::MmapMut {
	let ptr = unsafe { IDX_FILE.as_mut_ptr() };
	let m: memmap2::MmapMut = unsafe { std::mem::transmute::<(*mut u8, usize), memmap2::MmapMut>((ptr, PAGE_FILE)) };
	assert!(m.len() == PAGE_FILE);
	m
}
pub fn mk(bits: u8) -> IndexTable {
	IndexTable { id: TableId::new(0, bits), map: RwLock::new(Some(fake_map())), path: std::path::PathBuf::new() }
}
pub fn write_through(index: u64, data: &Chunk) {
	assert!(index == 0);
	unsafe { IDX_FILE[META_SIZE..META_SIZE + CHUNK_LEN].copy_from_slice(&data.0); }
}

// Contract-level model of find_entry, justified by the C19 harnesses: first slot >= sub_index that is
// non-empty and whose partial key equals the key's. Concrete loop bounds, symbolic guards.
pub fn find_entry_contract(t: &IndexTable, key_prefix: u64, sub_index: usize, chunk: &Chunk) -> (Entry, usize) {
	let bits = t.id.index_bits();
	let want = Entry::extract_key(key_prefix, bits);
	let mut i = 0;
	while i < CHUNK_ENTRIES {
		if i >= sub_index {
			let e = Entry::from_u64(u64::from_le_bytes([chunk.0[i*8], chunk.0[i*8+1], chunk.0[i*8+2], chunk.0[i*8+3], chunk.0[i*8+4], chunk.0[i*8+5], chunk.0[i*8+6], chunk.0[i*8+7]]));
			if !e.is_empty() && e.partial_key(bits) == want { return (e, i) }
		}
		i += 1;
	}
	(Entry::empty(), 0)
}

// C20.M2 / C09.G1 arithmetic lemmas, all index sizes
#[kani::proof]
fn c20_recover_prefix() {
	let bits: u8 = kani::any();
	kani::assume(bits >= 16 && bits <= 48);
	let t = IndexTable { id: TableId::new(0, bits), map: RwLock::new(None), path: std::path::PathBuf::new() };
	let kp: u64 = kani::any();
	let a: u64 = kani::any();
	kani::assume(a <= Entry::last_address(bits));
	let e = Entry::new(Address::from_u64(a), Entry::extract_key(kp, bits), bits);
	assert!(e.address(bits).as_u64() == a);
	assert!(e.partial_key(bits) == Entry::extract_key(kp, bits));
	let k = t.recover_key_prefix(t.chunk_index(kp), e);
	let rec = u64::from_be_bytes([k[0], k[1], k[2], k[3], k[4], k[5], k[6], k[7]]);
	assert!(rec >> 14 == kp >> 14);           // first 50 bits
	let kb = kp.to_be_bytes();
	assert!(k[0] == kb[0] && k[5] == kb[5]);   // bytes 0..6 are exact
	// growth: the recovered prefix addresses the same page / partial key in the next size
	let t2 = IndexTable { id: TableId::new(0, bits + 1), map: RwLock::new(None), path: std::path::PathBuf::new() };
	assert!(t2.chunk_index(rec) == t2.chunk_index(kp));
	assert!(Entry::extract_key(rec, bits + 1) == Entry::extract_key(kp, bits + 1));
	std::mem::forget(t); std::mem::forget(t2);
}
