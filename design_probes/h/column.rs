use super::*;
use crate::log::{LogWriter, LogQuery, LogWriterValueGuard};
use crate::index::Chunk as IndexChunk;
use std::time::Instant;

pub fn rw_lock_exclusive_slow(_l: &parking_lot::RawRwLock, _t: Option<Instant>) -> bool { panic!("contended") }
pub fn rw_unlock_exclusive_slow(_l: &parking_lot::RawRwLock, _f: bool) { panic!("contended") }
pub fn rw_lock_shared_slow(_l: &parking_lot::RawRwLock, _r: bool, _t: Option<Instant>) -> bool { panic!("contended") }
pub fn rw_unlock_shared_slow(_l: &parking_lot::RawRwLock) { panic!("contended") }
pub fn rw_lock_upgradable_slow(_l: &parking_lot::RawRwLock, _t: Option<Instant>) -> bool { panic!("contended") }
pub fn rw_unlock_upgradable_slow(_l: &parking_lot::RawRwLock, _f: bool) { panic!("contended") }
pub fn rw_upgrade_slow(_l: &parking_lot::RawRwLock, _t: Option<Instant>) -> bool { panic!("contended") }
pub fn rw_downgrade_slow(_l: &parking_lot::RawRwLock) { panic!("contended") }
pub fn rw_downgrade_to_upgradable_slow(_l: &parking_lot::RawRwLock) { panic!("contended") }
pub fn fixed_random_state() -> std::hash::RandomState { unsafe { std::mem::transmute::<[u64; 2], std::hash::RandomState>([1, 2]) } }
pub fn fmt_stub(_a: std::fmt::Arguments<'_>) -> String { String::new() }

// array-backed per-record overlay: 2 value tables x 4 slots x 64 bytes, one index page
pub const T: usize = 2; pub const S: usize = 4; pub const B: usize = 64;
pub static mut V_USED: [[bool; S]; T] = [[false; S]; T];
pub static mut V_LEN: [[usize; S]; T] = [[0; S]; T];
pub static mut V_DATA: [[[u8; B]; S]; T] = [[[0u8; B]; S]; T];
pub static mut I_USED: bool = false;
pub static mut I_AT: u64 = 0;
pub static mut I_CHUNK: IndexChunk = IndexChunk([0u8; 512]);

pub fn ov_insert_value<'a>(_w: &mut LogWriter<'a>, table: ValueTableId, index: u64, data: Vec<u8>) where 'a: 'a {
	let t = table.size_tier() as usize; let i = index as usize;
	assert!(t < T && i < S && data.len() <= B);
	unsafe { V_USED[t][i] = true; V_LEN[t][i] = data.len(); let mut k = 0; while k < B { if k < data.len() { V_DATA[t][i][k] = data[k]; } k += 1; } }
}
pub fn ov_value<'q>(_w: &LogWriter<'q>, table: ValueTableId, index: u64, dest: &mut [u8]) -> bool where 'q: 'q {
	let t = table.size_tier() as usize; let i = index as usize;
	unsafe {
		if t >= T || i >= S || !V_USED[t][i] { return false }
		let len = dest.len().min(V_LEN[t][i]);
		let mut k = 0;
		while k < B { if k < len { dest[k] = V_DATA[t][i][k]; } k += 1; }
	}
	true
}
pub fn ov_value_ref<'q, 'v>(_w: &'v LogWriter<'q>, table: ValueTableId, index: u64) -> Option<LogWriterValueGuard<'v>> where 'q: 'q {
	let t = table.size_tier() as usize; let i = index as usize;
	unsafe {
		if t >= T || i >= S || !V_USED[t][i] { return None }
		Some(LogWriterValueGuard::Local(&V_DATA[t][i][0..V_LEN[t][i]]))
	}
}
pub fn ov_insert_index<'a>(_w: &mut LogWriter<'a>, _table: IndexTableId, index: u64, _sub: u8, data: IndexChunk) where 'a: 'a {
	crate::index::verif_kani::write_through(index, &data);
}
pub fn ov_with_index<'q, R, F: FnOnce(&IndexChunk) -> R>(_w: &LogWriter<'q>, _table: IndexTableId, index: u64, f: F) -> Option<R> where 'q: 'q {
	unsafe { if I_USED && I_AT == index { Some(f(&I_CHUNK)) } else { None } }
}

fn mini(ref_counted: bool) -> HashColumn {
	let value = vec![
		crate::table::verif_kani::mk(ValueTableId::new(0, 0), 48, false, ref_counted),
		crate::table::verif_kani::mk(ValueTableId::new(0, 1), 64, false, ref_counted),
	];
	HashColumn {
		col: 0,
		tables: RwLock::new(Tables { index: crate::index::verif_kani::mk(16), value, ref_count: None }),
		reindex: RwLock::new(Reindex { queue: VecDeque::new(), progress: AtomicU64::new(0) }),
		ref_count_cache: None,
		path: PathBuf::new(),
		preimage: ref_counted,
		uniform_keys: true,
		collect_stats: false,
		ref_counted,
		append_only: false,
		salt: [0u8; 32],
		stats: crate::stats::verif_kani::tiny(),
		compression: Compress::new(crate::compress::CompressionType::NoCompression, u32::MAX),
		db_version: crate::options::CURRENT_VERSION,
	}
}

#[kani::proof]
#[kani::unwind(65)]
#[kani::stub(parking_lot::RawRwLock::lock_exclusive_slow, rw_lock_exclusive_slow)]
#[kani::stub(parking_lot::RawRwLock::unlock_exclusive_slow, rw_unlock_exclusive_slow)]
#[kani::stub(parking_lot::RawRwLock::lock_shared_slow, rw_lock_shared_slow)]
#[kani::stub(parking_lot::RawRwLock::unlock_shared_slow, rw_unlock_shared_slow)]
#[kani::stub(parking_lot::RawRwLock::lock_upgradable_slow, rw_lock_upgradable_slow)]
#[kani::stub(parking_lot::RawRwLock::unlock_upgradable_slow, rw_unlock_upgradable_slow)]
#[kani::stub(parking_lot::RawRwLock::upgrade_slow, rw_upgrade_slow)]
#[kani::stub(parking_lot::RawRwLock::downgrade_slow, rw_downgrade_slow)]
#[kani::stub(parking_lot::RawRwLock::downgrade_to_upgradable_slow, rw_downgrade_to_upgradable_slow)]
#[kani::stub(std::hash::RandomState::new, fixed_random_state)]
#[kani::stub(crate::file::TableFile::read_at, crate::file::verif_kani::stub_read_at)]
#[kani::stub(crate::file::TableFile::slice_at, crate::file::verif_kani::stub_slice_at)]
#[kani::stub(crate::file::TableFile::write_at, crate::file::verif_kani::stub_write_at)]
#[kani::stub(alloc::fmt::format, fmt_stub)]
#[kani::stub(crate::index::IndexTable::find_entry, crate::index::verif_kani::find_entry_contract)]
#[kani::stub(crate::log::LogWriter::insert_value, ov_insert_value)]
#[kani::stub(crate::log::LogWriter::insert_index, ov_insert_index)]
#[kani::stub(<crate::log::LogWriter as crate::log::LogQuery>::value, ov_value)]
#[kani::stub(<crate::log::LogWriter as crate::log::LogQuery>::value_ref, ov_value_ref)]
fn mini_collision_pair() {
	let c = mini(false);
	let overlays = RwLock::new(LogOverlays::with_columns(0));
	let mut w = LogWriter::new(&overlays, 1);
	// two hashed keys with the same index-visible prefix, different tails
	let mut head: [u8; 8] = kani::any(); head[0] = 0; head[1] = 0;
	let t1: u8 = kani::any();
	let t2: u8 = kani::any();
	kani::assume(t1 != t2);
	let mut k1 = [0u8; 32]; k1[..8].copy_from_slice(&head); k1[31] = t1;
	let mut k2 = [0u8; 32]; k2[..8].copy_from_slice(&head); k2[31] = t2;
	let v1: [u8; 3] = kani::any();
	let v2: [u8; 5] = kani::any();
	c.write_plan(&Operation::Set(k1, v1.to_vec().into()), &mut w).unwrap();
	c.write_plan(&Operation::Set(k2, v2.to_vec().into()), &mut w).unwrap();
	let g1 = c.get(&k1, &w).unwrap();
	let g2 = c.get(&k2, &w).unwrap();
	assert!(g1.as_ref().map(|(v, _)| v.len()) == Some(3));
	assert!(g2.as_ref().map(|(v, _)| v.len()) == Some(5));
	let (a, _) = g1.unwrap(); let (b, _) = g2.unwrap();
	assert!(a[0] == v1[0] && a[2] == v1[2]);
	assert!(b[0] == v2[0] && b[4] == v2[4]);
	std::mem::forget(a); std::mem::forget(b);
	std::mem::forget(w); std::mem::forget(c);
}

#[kani::proof]
#[kani::unwind(42)]
fn c01_hash_key_uniform_total() {
	let buf: [u8; 40] = kani::any();
	let len: usize = kani::any();
	kani::assume(len >= 32 && len <= 40);
	let salt: Salt = kani::any();
	let k = hash_key(&buf[..len], &salt, true, crate::options::CURRENT_VERSION);
	let i: usize = kani::any();
	kani::assume(i >= 16 && i < 32);
	assert!(k[i] == buf[i]);
}

/// Test generated for harness `column::verif_kani::c01_hash_key_uniform_total`
///
/// Check for `assertion`: "This is a placeholder message; Kani doesn't support message formatted at runtime"

#[test]
fn kani_concrete_playback_c01_hash_key_uniform_total_11485830441876157123() {
    let concrete_vals: Vec<Vec<u8>> = vec![
        // 255
        vec![255],
        // 255
        vec![255],
        // 255
        vec![255],
        // 255
        vec![255],
        // 255
        vec![255],
        // 255
        vec![255],
        // 255
        vec![255],
        // 255
        vec![255],
        // 255
        vec![255],
        // 255
        vec![255],
        // 255
        vec![255],
        // 255
        vec![255],
        // 255
        vec![255],
        // 255
        vec![255],
        // 255
        vec![255],
        // 255
        vec![255],
        // 255
        vec![255],
        // 255
        vec![255],
        // 255
        vec![255],
        // 255
        vec![255],
        // 255
        vec![255],
        // 255
        vec![255],
        // 255
        vec![255],
        // 255
        vec![255],
        // 255
        vec![255],
        // 255
        vec![255],
        // 255
        vec![255],
        // 255
        vec![255],
        // 255
        vec![255],
        // 255
        vec![255],
        // 255
        vec![255],
        // 255
        vec![255],
        // 255
        vec![255],
        // 255
        vec![255],
        // 255
        vec![255],
        // 255
        vec![255],
        // 255
        vec![255],
        // 255
        vec![255],
        // 255
        vec![255],
        // 255
        vec![255],
        // 40ul
        vec![40, 0, 0, 0, 0, 0, 0, 0],
        // 255
        vec![255],
        // 255
        vec![255],
        // 255
        vec![255],
        // 255
        vec![255],
        // 255
        vec![255],
        // 255
        vec![255],
        // 255
        vec![255],
        // 255
        vec![255],
        // 255
        vec![255],
        // 255
        vec![255],
        // 255
        vec![255],
        // 255
        vec![255],
        // 255
        vec![255],
        // 255
        vec![255],
        // 255
        vec![255],
        // 255
        vec![255],
        // 255
        vec![255],
        // 255
        vec![255],
        // 255
        vec![255],
        // 255
        vec![255],
        // 255
        vec![255],
        // 255
        vec![255],
        // 255
        vec![255],
        // 255
        vec![255],
        // 255
        vec![255],
        // 255
        vec![255],
        // 255
        vec![255],
        // 255
        vec![255],
        // 255
        vec![255],
        // 255
        vec![255],
        // 255
        vec![255],
        // 255
        vec![255],
    ];
    kani::concrete_playback_run(concrete_vals, c01_hash_key_uniform_total);
}

// C10.N1: node decoding is total and inverts packing
#[kani::proof]
#[kani::unwind(26)]
fn c10_unpack_total() {
	let buf: [u8; 24] = kani::any();
	let len: usize = kani::any();
	kani::assume(len <= 24);
	let mut l = 0;
	while l <= 24 {
		if l == len {
			let data = buf[..l].to_vec();
			let r = unpack_node_data(data.clone());
			let c = unpack_node_children(&data);
			match (r, c) {
				(Ok((d, ch)), Ok(ch2)) => {
					assert!(ch.len() == ch2.len());
					assert!(d.len() + ch.len() * 8 + 1 == l);
					assert!(buf[l - 1] as usize == ch.len());
					let i: usize = kani::any();
					kani::assume(i < d.len());
					assert!(d[i] == buf[i]);
					std::mem::forget(d); std::mem::forget(ch); std::mem::forget(ch2);
				},
				(Err(_), Err(_)) => {},
				_ => assert!(false),
			}
			std::mem::forget(data);
		}
		l += 1;
	}
}
