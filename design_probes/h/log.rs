use super::*;

pub const LOG_BYTES: usize = 40;
pub static mut BUF: [u8; LOG_BYTES] = [0u8; LOG_BYTES];
pub static mut LEN: usize = 0;
pub static mut POS: usize = 0;

pub fn stub_read(_r: &mut std::fs::File, buf: &mut [u8]) -> std::io::Result<usize> {
	unsafe {
		// A short read is modelled as end-of-file: read_exact fails in both cases.
		if POS + buf.len() > LEN { return Ok(0) }
		buf.copy_from_slice(&BUF[POS..POS + buf.len()]);
		POS += buf.len();
		Ok(buf.len())
	}
}
pub fn no_specialized_crc(_init: u32, _amount: u64) -> Option<crc32fast::Hasher> { None }
pub fn fmt_stub(_a: std::fmt::Arguments<'_>) -> String { String::new() }
use std::time::Instant;
pub fn rw_lock_exclusive_slow(_l: &parking_lot::RawRwLock, _t: Option<Instant>) -> bool { panic!("contended") }
pub fn rw_unlock_exclusive_slow(_l: &parking_lot::RawRwLock, _f: bool) { panic!("contended") }
pub fn rw_lock_shared_slow(_l: &parking_lot::RawRwLock, _r: bool, _t: Option<Instant>) -> bool { panic!("contended") }
pub fn rw_unlock_shared_slow(_l: &parking_lot::RawRwLock) { panic!("contended") }

fn reading() -> RwLock<Option<Reading>> {
	use std::os::fd::FromRawFd;
	let f = unsafe { std::fs::File::from_raw_fd(3) };
	RwLock::new(Some(Reading { id: 0, file: std::io::BufReader::with_capacity(0, f) }))
}

// C13 kernel: the record parser on arbitrary bytes: no panic; a record is accepted (EndRecord) only with matching CRC.
#[kani::proof]
#[kani::unwind(6)]
#[kani::stub(<std::fs::File as std::io::Read>::read, stub_read)]
#[kani::stub(crc32fast::Hasher::internal_new_specialized, no_specialized_crc)]
#[kani::stub(alloc::fmt::format, fmt_stub)]
#[kani::stub(parking_lot::RawRwLock::lock_exclusive_slow, rw_lock_exclusive_slow)]
#[kani::stub(parking_lot::RawRwLock::unlock_exclusive_slow, rw_unlock_exclusive_slow)]
#[kani::stub(parking_lot::RawRwLock::lock_shared_slow, rw_lock_shared_slow)]
#[kani::stub(parking_lot::RawRwLock::unlock_shared_slow, rw_unlock_shared_slow)]
fn c13_parser_actions() {
	unsafe { BUF = kani::any(); LEN = kani::any(); kani::assume(LEN <= LOG_BYTES); POS = 0; }
	let lock = reading();
	let mut r = LogReader::new(lock.write(), true);
	let mut steps = 0;
	let mut ended = false;
	while steps < 3 {
		match r.next() {
			Ok(LogAction::EndRecord) => { ended = true; break },
			Ok(_) => {},
			Err(_) => break,
		}
		steps += 1;
	}
	kani::cover!(ended);
	assert!(r.read_bytes() as usize <= unsafe { LEN });
	std::mem::forget(r);
	std::mem::forget(lock);
}

// read stub that only accounts for length (payload content is irrelevant to the obligation)
pub fn stub_read_len_only(_r: &mut std::fs::File, buf: &mut [u8]) -> std::io::Result<usize> {
	unsafe {
		if POS + buf.len() > LEN { return Ok(0) }
		if buf.len() <= 16 { buf.copy_from_slice(&BUF[POS % 16..POS % 16 + buf.len()]); }
		POS += buf.len();
		Ok(buf.len())
	}
}
pub fn reader_for_tables<'a>(lock: &'a RwLock<Option<Reading>>) -> LogReader<'a> { LogReader::new(lock.write(), false) }
pub fn new_reading() -> RwLock<Option<Reading>> { reading() }

#[kani::proof]
#[kani::unwind(4)]
#[kani::stub(crc32fast::Hasher::internal_new_specialized, no_specialized_crc)]
#[kani::stub(<std::fs::File as std::io::Read>::read, stub_read_len_only)]
#[kani::stub(alloc::fmt::format, fmt_stub)]
#[kani::stub(parking_lot::RawRwLock::lock_exclusive_slow, rw_lock_exclusive_slow)]
#[kani::stub(parking_lot::RawRwLock::unlock_exclusive_slow, rw_unlock_exclusive_slow)]
#[kani::stub(parking_lot::RawRwLock::lock_shared_slow, rw_lock_shared_slow)]
#[kani::stub(parking_lot::RawRwLock::unlock_shared_slow, rw_unlock_shared_slow)]
fn c13_validate_plan_total() {
	unsafe {
		BUF = kani::any();
		LEN = kani::any();
		POS = 0;
	}
	let multipart: bool = kani::any();
	let t = crate::table::verif_kani::mk(ValueTableId::new(0, 0), 64, multipart, false);
	let lock = new_reading();
	let mut r = reader_for_tables(&lock);
	let index: u64 = kani::any();
	let res = t.validate_plan(index, &mut r);
	kani::cover!(res.is_ok());
	kani::cover!(res.is_err());
	std::mem::forget(res);
	std::mem::forget(r); std::mem::forget(lock); std::mem::forget(t);
}

pub fn stub_reader_read<'a>(r: &mut LogReader<'a>, buf: &mut [u8]) -> Result<()> where 'a: 'a {
	unsafe {
		if POS + buf.len() > LEN { return Err(Error::Io(std::io::Error::from(std::io::ErrorKind::UnexpectedEof))) }
		if buf.len() == 2 { buf[0] = BUF[0]; buf[1] = BUF[1]; }
		POS += buf.len();
	}
	r.read_bytes += buf.len() as u64;
	Ok(())
}

#[kani::proof]
#[kani::unwind(4)]
#[kani::stub(crc32fast::Hasher::internal_new_specialized, no_specialized_crc)]
#[kani::stub(LogReader::read, stub_reader_read)]
#[kani::stub(alloc::fmt::format, fmt_stub)]
#[kani::stub(parking_lot::RawRwLock::lock_exclusive_slow, rw_lock_exclusive_slow)]
#[kani::stub(parking_lot::RawRwLock::unlock_exclusive_slow, rw_unlock_exclusive_slow)]
#[kani::stub(parking_lot::RawRwLock::lock_shared_slow, rw_lock_shared_slow)]
#[kani::stub(parking_lot::RawRwLock::unlock_shared_slow, rw_unlock_shared_slow)]
fn c13_validate_plan_total2() {
	unsafe { BUF = kani::any(); LEN = kani::any(); POS = 0; }
	let multipart: bool = kani::any();
	let t = crate::table::verif_kani::mk(ValueTableId::new(0, 0), 64, multipart, false);
	let lock = new_reading();
	let mut r = reader_for_tables(&lock);
	let index: u64 = kani::any();
	let res = t.validate_plan(index, &mut r);
	kani::cover!(res.is_ok());
	kani::cover!(res.is_err());
	std::mem::forget(res);
	std::mem::forget(r); std::mem::forget(lock); std::mem::forget(t);
}

// ---- C12.O1: flush_one syncs before hand-over ----
pub static mut EV_SYNCED: bool = false;
pub static mut EV_SYNC_FAILS: bool = false;
pub fn stub_sync_data(_f: &std::fs::File) -> std::io::Result<()> {
	unsafe {
		if EV_SYNC_FAILS { return Err(std::io::Error::from(std::io::ErrorKind::Other)) }
		EV_SYNCED = true;
	}
	Ok(())
}
pub fn stub_fd_drop(_fd: &mut std::os::fd::OwnedFd) {}
fn raw_file(fd: i32) -> std::fs::File { use std::os::fd::FromRawFd; unsafe { std::fs::File::from_raw_fd(fd) } }

#[kani::proof]
#[kani::unwind(4)]
#[kani::stub(std::fs::File::sync_data, stub_sync_data)]
#[kani::stub(<std::os::fd::OwnedFd as std::ops::Drop>::drop, stub_fd_drop)]
#[kani::stub(std::hash::RandomState::new, crate::column::verif_kani::fixed_random_state)]
#[kani::stub(alloc::fmt::format, fmt_stub)]
#[kani::stub(parking_lot::RawRwLock::lock_exclusive_slow, rw_lock_exclusive_slow)]
#[kani::stub(parking_lot::RawRwLock::unlock_exclusive_slow, rw_unlock_exclusive_slow)]
#[kani::stub(parking_lot::RawRwLock::lock_shared_slow, rw_lock_shared_slow)]
#[kani::stub(parking_lot::RawRwLock::unlock_shared_slow, rw_unlock_shared_slow)]
fn c12_flush_one_syncs_first() {
	let sync: bool = kani::any();
	let size: u64 = kani::any();
	let min: u64 = kani::any();
	unsafe { EV_SYNCED = false; EV_SYNC_FAILS = kani::any(); }
	let log = Log {
		overlays: RwLock::new(LogOverlays::with_columns(0)),
		appending: RwLock::new(Some(Appending { id: 7, file: std::io::BufWriter::with_capacity(0, raw_file(5)), size })),
		reading: RwLock::new(None),
		read_queue: RwLock::default(),
		next_record_id: AtomicU64::new(1),
		dirty: AtomicBool::new(true),
		log_pool: RwLock::default(),
		cleanup_queue: RwLock::default(),
		replay_queue: RwLock::default(),
		path: std::path::PathBuf::new(),
		next_log_id: AtomicU32::new(0),
		sync,
	};
	let r = log.flush_one(min);
	let queued = log.read_queue.read().len();
	let synced = unsafe { EV_SYNCED };
	match &r {
		Ok(true) => { assert!(size > min); assert!(queued == 1); if sync { assert!(synced, "C12.O1 sync before hand-over"); } },
		Ok(false) => { assert!(size <= min && queued == 0); },
		Err(_) => { assert!(queued == 0, "C12.O1 nothing handed over when sync fails"); },
	}
	kani::cover!(matches!(r, Ok(true)) && sync);
	kani::cover!(r.is_err());
	std::mem::forget(r);
	std::mem::forget(log);
}
