use super::*;
pub fn mk(id: TableId, entry_size: u16, multipart: bool, ref_counted: bool) -> ValueTable {
	ValueTable {
		id,
		entry_size,
		file: crate::file::verif_kani::new_file(id),
		filled: AtomicU64::new(1),
		written: AtomicU64::new(1),
		last_removed: AtomicU64::new(0),
		dirty_header: AtomicBool::new(false),
		needs_free_entries: false,
		free_entries: None,
		multipart,
		ref_counted,
		db_version: crate::options::CURRENT_VERSION,
	}
}


use crate::column::verif_kani as vc;
// C07.R1: change_ref on an entry whose stored counter is any u32
#[kani::proof]
#[kani::unwind(66)]
#[kani::stub(parking_lot::RawRwLock::lock_exclusive_slow, vc::rw_lock_exclusive_slow)]
#[kani::stub(parking_lot::RawRwLock::unlock_exclusive_slow, vc::rw_unlock_exclusive_slow)]
#[kani::stub(parking_lot::RawRwLock::lock_shared_slow, vc::rw_lock_shared_slow)]
#[kani::stub(parking_lot::RawRwLock::unlock_shared_slow, vc::rw_unlock_shared_slow)]
#[kani::stub(std::hash::RandomState::new, vc::fixed_random_state)]
#[kani::stub(alloc::fmt::format, vc::fmt_stub)]
#[kani::stub(crate::log::LogWriter::insert_value, vc::ov_insert_value)]
#[kani::stub(<crate::log::LogWriter as crate::log::LogQuery>::value, vc::ov_value)]
#[kani::stub(<crate::log::LogWriter as crate::log::LogQuery>::value_ref, vc::ov_value_ref)]
fn c07_change_ref_all_counters() {
	let t = mk(TableId::new(0, 0), 64, false, true);
	t.filled.store(3, Ordering::Relaxed);
	let overlays = RwLock::new(crate::log::LogOverlays::with_columns(0));
	let mut w = crate::log::LogWriter::new(&overlays, 1);
	// pre-state entry at slot 1, in the overlay: [size=40][rc: any u32][key 26][value 10]
	let rc: u32 = kani::any();
	let body: [u8; 36] = kani::any();
	let mut e = vec![0u8; 42];
	e[0..2].copy_from_slice(&40u16.to_le_bytes());
	e[2..6].copy_from_slice(&rc.to_le_bytes());
	e[6..42].copy_from_slice(&body);
	w.insert_value(t.id, 1, e);
	let up: bool = kani::any();
	let remains = t.change_ref(1, if up { 1 } else { -1 }, &mut w).unwrap();
	let mut out = [0u8; 42];
	assert!(crate::log::LogQuery::value(&w, t.id, 1, &mut out));
	let new_rc = u32::from_le_bytes([out[2], out[3], out[4], out[5]]);
	if up {
		assert!(remains);
		assert!(new_rc == if rc >= u32::MAX - 1 { u32::MAX } else { rc + 1 });
	} else if rc == u32::MAX {
		assert!(remains && new_rc == u32::MAX);
	} else if rc <= 1 {
		assert!(!remains && new_rc == rc); // untouched; caller frees the slot
	} else {
		assert!(remains && new_rc == rc - 1);
	}
	let i: usize = kani::any();
	kani::assume(i >= 6 && i < 42);
	assert!(out[i] == body[i - 6]);
	kani::cover!(up && rc == u32::MAX - 1);
	kani::cover!(!up && rc == 1);
	std::mem::forget(w); std::mem::forget(t);
}

// C14.T1/T2: free-list step from an arbitrary valid table state (4 slots of 32 bytes on "disk")
#[kani::proof]
#[kani::unwind(130)]
#[kani::stub(parking_lot::RawRwLock::lock_exclusive_slow, vc::rw_lock_exclusive_slow)]
#[kani::stub(parking_lot::RawRwLock::unlock_exclusive_slow, vc::rw_unlock_exclusive_slow)]
#[kani::stub(parking_lot::RawRwLock::lock_shared_slow, vc::rw_lock_shared_slow)]
#[kani::stub(parking_lot::RawRwLock::unlock_shared_slow, vc::rw_unlock_shared_slow)]
#[kani::stub(std::hash::RandomState::new, vc::fixed_random_state)]
#[kani::stub(alloc::fmt::format, vc::fmt_stub)]
#[kani::stub(crate::file::TableFile::read_at, crate::file::verif_kani::stub_read_at)]
#[kani::stub(crate::log::LogWriter::insert_value, vc::ov_insert_value)]
#[kani::stub(<crate::log::LogWriter as crate::log::LogQuery>::value, vc::ov_value)]
#[kani::stub(<crate::log::LogWriter as crate::log::LogQuery>::value_ref, vc::ov_value_ref)]
fn c14_free_list_step() {
	const E: usize = 32;
	let disk: [u8; 128] = kani::any();
	{
		let mut g = crate::file::verif_kani::FILE0.write();
		let mut k = 0;
		while k < 128 { g[k] = disk[k]; k += 1; }
	}
	let filled: u64 = kani::any();
	let last_removed: u64 = kani::any();
	kani::assume(filled >= 1 && filled <= 3 && last_removed < filled);
	// representation invariant: the free list is a simple path of tombstones below `filled` ending in 0
	let next_of = |i: u64| -> u64 { let o = i as usize * E + 2; u64::from_le_bytes([disk[o], disk[o+1], disk[o+2], disk[o+3], disk[o+4], disk[o+5], disk[o+6], disk[o+7]]) };
	let mut seen = [false; 4];
	let mut cur = last_removed;
	let mut hops = 0;
	while hops < 3 {
		if cur != 0 {
			kani::assume(cur < filled);
			kani::assume(!seen[cur as usize]);
			seen[cur as usize] = true;
			kani::assume(disk[cur as usize * E] == 0xff && disk[cur as usize * E + 1] == 0xff);
			cur = next_of(cur);
		}
		hops += 1;
	}
	kani::assume(cur == 0);
	let t = mk(TableId::new(0, 0), E as u16, false, false);
	t.filled.store(filled, Ordering::Relaxed);
	t.last_removed.store(last_removed, Ordering::Relaxed);
	let overlays = RwLock::new(crate::log::LogOverlays::with_columns(0));
	let mut w = crate::log::LogWriter::new(&overlays, 1);

	let idx = t.next_free(&mut w).unwrap();
	if last_removed != 0 {
		assert!(idx == last_removed, "C14.T1 pops the head");
		assert!(t.last_removed.load(Ordering::Relaxed) == next_of(last_removed), "C14.T1 new head");
		assert!(t.filled.load(Ordering::Relaxed) == filled);
	} else {
		assert!(idx == filled, "C14.T1 extends");
		assert!(t.filled.load(Ordering::Relaxed) == filled + 1);
		assert!(t.last_removed.load(Ordering::Relaxed) == 0);
	}
	assert!(t.dirty_header.load(Ordering::Relaxed));
	// free it again: it becomes the head, linking to the previous head
	let head_before = t.last_removed.load(Ordering::Relaxed);
	t.clear_slot(idx, &mut w).unwrap();
	assert!(t.last_removed.load(Ordering::Relaxed) == idx, "C14.T2 freed slot is the head");
	let mut out = [0u8; 10];
	assert!(crate::log::LogQuery::value(&w, t.id, idx, &mut out));
	assert!(out[0] == 0xff && out[1] == 0xff);
	assert!(u64::from_le_bytes([out[2], out[3], out[4], out[5], out[6], out[7], out[8], out[9]]) == head_before, "C14.T2 link");
	kani::cover!(last_removed != 0 && next_of(last_removed) != 0);
	kani::cover!(last_removed == 0);
	std::mem::forget(w); std::mem::forget(t);
}
