//! Harnesses for src/table.rs: C07.R1 (counter arithmetic), C14.T1/T2 (free list steps), C06.S1a/S2-S4 (value chains),
//! C13.P2 (validate_plan / enact_plan on arbitrary payloads).
#![allow(dead_code, unused_imports, static_mut_refs)]
use super::*;
use crate::file::verif_kani as vf;
use crate::log::verif_kani as vl;
use crate::verif_common as vc;

pub fn mk(id: TableId, entry_size: u16, multipart: bool, ref_counted: bool, capacity: u64) -> ValueTable {
	ValueTable {
		id,
		entry_size,
		file: vf::new_file(id, capacity),
		filled: AtomicU64::new(1),
		written: AtomicU64::new(1),
		last_removed: AtomicU64::new(0),
		dirty_header: AtomicBool::new(false),
		needs_free_entries: false,
		free_entries: None,
		multipart,
		ref_counted,
		db_version: crate::options::CURRENT_VERSION,
	}
}

/// Multitree-style table: keeps the in-memory free stack (claim_entries needs it).
pub fn mk_mt(id: TableId, entry_size: u16, multipart: bool, capacity: u64, stack: Vec<u64>) -> ValueTable {
	let mut t = mk(id, entry_size, multipart, false, capacity);
	t.needs_free_entries = true;
	t.free_entries = Some(RwLock::new(FreeEntries { stack }));
	t
}
pub fn free_stack_of(t: &ValueTable) -> Vec<u64> { t.free_entries.as_ref().map(|f| f.read().stack.clone()).unwrap_or_default() }

pub fn set_filled(t: &ValueTable, v: u64) { t.filled.store(v, Ordering::Relaxed); }
pub fn set_last_removed(t: &ValueTable, v: u64) { t.last_removed.store(v, Ordering::Relaxed); }
pub fn filled_of(t: &ValueTable) -> u64 { t.filled.load(Ordering::Relaxed) }
pub fn last_removed_of(t: &ValueTable) -> u64 { t.last_removed.load(Ordering::Relaxed) }
pub fn dirty_of(t: &ValueTable) -> bool { t.dirty_header.load(Ordering::Relaxed) }
pub fn file_of(t: &ValueTable) -> &crate::file::TableFile { &t.file }

fn le64(b: &[u8], o: usize) -> u64 { u64::from_le_bytes([b[o], b[o + 1], b[o + 2], b[o + 3], b[o + 4], b[o + 5], b[o + 6], b[o + 7]]) }

// =====================================================================================
// C07.R1: counter arithmetic for every stored u32 counter
// =====================================================================================
fn change_ref_case(in_overlay: bool, multipart_head: bool) {
	const E: usize = 64;
	let t = mk(TableId::new(0, 0), E as u16, multipart_head, true, 8);
	t.filled.store(3, Ordering::Relaxed);
	let overlays = vl::new_overlays();
	let mut w = crate::log::LogWriter::new(&overlays, 1);
	// pre-state entry at slot 1: [size=40][rc][key 26][value 10]  or  [MULTIHEAD][next 8][rc][key 26][value ...]
	let rc: u32 = kani::any();
	let body: [u8; 64] = kani::any();
	let mut e = [0u8; E];
	let (rc_off, used) = if multipart_head {
		e[0] = 0xfd; e[1] = 0xff;
		let mut k = 0; while k < 8 { e[2 + k] = body[k]; k += 1; }
		(10usize, E)
	} else {
		e[0] = 40; e[1] = 0;
		(2usize, 42usize)
	};
	let rcb = rc.to_le_bytes();
	let mut k = 0; while k < 4 { e[rc_off + k] = rcb[k]; k += 1; }
	let mut k = rc_off + 4; while k < used { e[k] = body[k - rc_off - 4 + 8]; k += 1; }
	if in_overlay {
		let mut v = Vec::with_capacity(used);
		let mut k = 0; while k < used { v.push(e[k]); k += 1; }
		w.insert_value(t.id, 1, v);
	} else {
		vf::disk_put(&t.file, E, &e[..used]);
	}
	let up: bool = kani::any();
	let remains = t.change_ref(1, if up { 1 } else { -1 }, &mut w).unwrap();
	let mut out = [0u8; E];
	let logged = vl::rec_get(&w, t.id, 1, &mut out);
	let new_rc = u32::from_le_bytes([out[rc_off], out[rc_off + 1], out[rc_off + 2], out[rc_off + 3]]);
	if up {
		assert!(remains, "C07.R1 increment keeps the value");
		assert!(logged, "C07.R1 increment is logged");
		assert!(new_rc == if rc >= u32::MAX - 1 { u32::MAX } else { rc + 1 }, "C07.R1 increment saturates at the locked value");
	} else if rc == u32::MAX {
		assert!(remains && logged && new_rc == u32::MAX, "C07.R1 locked counter is sticky");
	} else if rc <= 1 {
		assert!(!remains, "C07.R1 count reaching zero reports removal");
		if !in_overlay { assert!(!logged, "C07.R1 no counter write when the value goes away"); }
	} else {
		assert!(remains && logged && new_rc == rc - 1, "C07.R1 decrement by one");
	}
	if remains {
		let i: usize = kani::any();
		kani::assume(i < used && !(i >= rc_off && i < rc_off + 4));
		assert!(out[i] == e[i], "C07.R1 all other bytes of the entry unchanged");
	}
	kani::cover!(up && rc == u32::MAX - 1);
	kani::cover!(!up && rc == 1);
	kani::cover!(!up && rc == 2);
	std::mem::forget(w); std::mem::forget(t); std::mem::forget(overlays);
}

crate::verif_tbl! {
#[kani::proof]
#[kani::unwind(66)]
fn c07_r1_change_ref_overlay() { change_ref_case(true, false) }
}
crate::verif_tbl! {
#[kani::proof]
#[kani::unwind(66)]
fn c07_r1_change_ref_disk() { change_ref_case(false, false) }
}
crate::verif_tbl! {
#[kani::proof]
#[kani::unwind(66)]
fn c07_r1_change_ref_multihead() { change_ref_case(false, true) }
}

/// C07.R1t: a tombstone is never re-referenced.
crate::verif_tbl! {
#[kani::proof]
#[kani::unwind(66)]
fn c07_r1_change_ref_tombstone() {
	let t = mk(TableId::new(0, 0), 64, kani::any(), true, 8);
	t.filled.store(3, Ordering::Relaxed);
	let overlays = vl::new_overlays();
	let mut w = crate::log::LogWriter::new(&overlays, 1);
	let rest: [u8; 40] = kani::any();
	let mut e = [0u8; 42];
	e[0] = 0xff; e[1] = 0xff;
	let mut k = 0; while k < 40 { e[2 + k] = rest[k]; k += 1; }
	vf::disk_put(&t.file, 64, &e);
	let up: bool = kani::any();
	let remains = t.change_ref(1, if up { 1 } else { -1 }, &mut w).unwrap();
	assert!(!remains, "C07.R1 tombstone has no count");
	let mut out = [0u8; 4];
	assert!(!vl::rec_get(&w, t.id, 1, &mut out), "C07.R1 tombstone is not rewritten");
	std::mem::forget(w); std::mem::forget(t); std::mem::forget(overlays);
}
}

// =====================================================================================
// C14.T1/T2: free-list steps from an arbitrary state satisfying the representation invariant
// =====================================================================================
const TE: usize = 32; // entry size of the inductive-step tables
const TN: usize = 6; // slots

/// Free-list part of inv(T): following `next` from last_removed reaches 0 within `filled` hops through
/// tombstones below `filled`, no slot twice. Returns the list as an array (0-terminated) and its length.
fn assume_free_list(disk: &[u8; TE * TN], filled: u64, last_removed: u64) -> ([u64; TN], usize) {
	kani::assume(filled >= 1 && filled <= TN as u64 && last_removed < filled);
	let mut seen = [false; TN];
	let mut list = [0u64; TN];
	let mut n = 0;
	let mut cur = last_removed;
	let mut hops = 0;
	while hops < TN - 1 {
		if cur != 0 {
			kani::assume(cur < filled);
			kani::assume(!seen[cur as usize]);
			seen[cur as usize] = true;
			kani::assume(disk[cur as usize * TE] == 0xff && disk[cur as usize * TE + 1] == 0xff);
			list[n] = cur;
			n += 1;
			cur = le64(disk, cur as usize * TE + 2);
		}
		hops += 1;
	}
	kani::assume(cur == 0);
	(list, n)
}

fn preload(t: &ValueTable, disk: &[u8; TE * TN]) { vf::disk_put(&t.file, 0, disk); }

crate::verif_tbl! {
#[kani::proof]
#[kani::unwind(200)]
fn c14_t1_next_free_step() {
	let disk: [u8; TE * TN] = kani::any();
	let filled: u64 = kani::any();
	let last_removed: u64 = kani::any();
	let (list, n) = assume_free_list(&disk, filled, last_removed);
	let t = mk(TableId::new(0, 0), TE as u16, kani::any(), kani::any(), 8);
	preload(&t, &disk);
	t.filled.store(filled, Ordering::Relaxed);
	t.last_removed.store(last_removed, Ordering::Relaxed);
	let overlays = vl::new_overlays();
	let mut w = crate::log::LogWriter::new(&overlays, 1);
	kani::assume(filled < TN as u64 || last_removed != 0); // room in the 6-slot harness file
	let idx = t.next_free(&mut w).unwrap();
	if last_removed != 0 {
		assert!(idx == last_removed, "C14.T1 pops the head of the free list");
		assert!(t.last_removed.load(Ordering::Relaxed) == if n >= 2 { list[1] } else { 0 }, "C14.T1 new head is the old head's successor");
		assert!(t.filled.load(Ordering::Relaxed) == filled, "C14.T1 fill mark unchanged when reusing");
	} else {
		assert!(idx == filled, "C14.T1 extends at the fill mark when the list is empty");
		assert!(t.filled.load(Ordering::Relaxed) == filled + 1, "C14.T1 fill mark advances by one");
		assert!(t.last_removed.load(Ordering::Relaxed) == 0, "C14.T1 list stays empty");
	}
	assert!(idx != 0, "C14.T1 never hands out the header slot");
	assert!(t.dirty_header.load(Ordering::Relaxed), "C14.T1 header marked dirty");
	// the remaining list is still a valid list that does not contain idx
	let mut j = 0;
	while j < TN { if j >= 1 && j < n { assert!(list[j] != idx, "C14.T1 handed-out slot is no longer on the list"); } j += 1; }
	// complete_plan logs exactly the new header
	t.complete_plan(&mut w).unwrap();
	let mut h = [0u8; 16];
	assert!(vl::rec_get(&w, t.id, 0, &mut h), "C14.T2h header logged after a change");
	assert!(le64(&h, 0) == t.last_removed.load(Ordering::Relaxed) && le64(&h, 8) == t.filled.load(Ordering::Relaxed), "C14.T2h logged header equals the in-memory one");
	assert!(!t.dirty_header.load(Ordering::Relaxed), "C14.T2h dirty flag cleared");
	kani::cover!(n >= 2);
	kani::cover!(last_removed == 0 && filled == 3);
	std::mem::forget(w); std::mem::forget(t); std::mem::forget(overlays);
}
}

crate::verif_tbl! {
#[kani::proof]
#[kani::unwind(200)]
fn c14_t2_clear_slot_step() {
	let disk: [u8; TE * TN] = kani::any();
	let filled: u64 = kani::any();
	let last_removed: u64 = kani::any();
	let (list, n) = assume_free_list(&disk, filled, last_removed);
	let t = mk(TableId::new(0, 0), TE as u16, false, kani::any(), 8);
	preload(&t, &disk);
	t.filled.store(filled, Ordering::Relaxed);
	t.last_removed.store(last_removed, Ordering::Relaxed);
	let overlays = vl::new_overlays();
	let mut w = crate::log::LogWriter::new(&overlays, 1);
	// free a live slot (not on the list)
	let idx: u64 = kani::any();
	kani::assume(idx >= 1 && idx < filled);
	let mut j = 0;
	while j < TN { if j < n { kani::assume(list[j] != idx); } j += 1; }
	t.write_remove_plan(idx, &mut w).unwrap();
	assert!(t.last_removed.load(Ordering::Relaxed) == idx, "C14.T2 freed slot becomes the head");
	assert!(t.filled.load(Ordering::Relaxed) == filled, "C14.T2 fill mark unchanged");
	assert!(t.dirty_header.load(Ordering::Relaxed), "C14.T2 header marked dirty");
	let mut out = [0u8; 10];
	assert!(vl::rec_get(&w, t.id, idx, &mut out), "C14.T2 tombstone logged");
	assert!(out[0] == 0xff && out[1] == 0xff, "C14.T2 tombstone marker");
	assert!(le64(&out, 2) == last_removed, "C14.T2 tombstone links to the previous head");
	assert!(unsafe { vl::OV_WRITES } == 1, "C14.T2 no other slot is written");
	// and the very next allocation reuses it and restores the previous head
	let again = t.next_free(&mut w).unwrap();
	assert!(again == idx, "C14.T2 freed slot is reused first");
	assert!(t.last_removed.load(Ordering::Relaxed) == last_removed, "C14.T2 previous head restored");
	kani::cover!(n >= 1);
	kani::cover!(n == 0);
	std::mem::forget(w); std::mem::forget(t); std::mem::forget(overlays);
}
}

/// Must-fail twin for the table family.
crate::verif_tbl! {
#[kani::proof]
#[kani::unwind(200)]
fn c14_twin_must_fail() {
	let disk: [u8; TE * TN] = kani::any();
	let filled: u64 = kani::any();
	let last_removed: u64 = kani::any();
	let (_list, _n) = assume_free_list(&disk, filled, last_removed);
	let t = mk(TableId::new(0, 0), TE as u16, false, false, 8);
	preload(&t, &disk);
	t.filled.store(filled, Ordering::Relaxed);
	t.last_removed.store(last_removed, Ordering::Relaxed);
	let overlays = vl::new_overlays();
	let mut w = crate::log::LogWriter::new(&overlays, 1);
	kani::assume(filled < TN as u64 || last_removed != 0);
	let idx = t.next_free(&mut w).unwrap();
	assert!(idx == filled, "TWIN allocation always extends (must fail)");
	std::mem::forget(w); std::mem::forget(t); std::mem::forget(overlays);
}
}

// =====================================================================================
// C06.S2-S4: value chains — write -> read exactness, overwrite, remove (shrunk entry sizes; the code is generic in entry_size)
// =====================================================================================
const CE: usize = 32; // part size of the chain harness tables (NoHash keys: btree / multitree style entries)
const CMAX: usize = 100; // longest value

/// Number of parts `overwrite_chain` needs for `total` = value + rc + key bytes with entry size `e`.
fn parts_needed(total: usize, e: usize) -> usize {
	let free = e - 2;
	let mut rem = total;
	let mut n = 1;
	while rem > free { rem -= free - 8; n += 1; }
	n
}

fn chain_table(rc: bool, filled: u64) -> ValueTable {
	let t = mk(TableId::new(0, 0), CE as u16, true, rc, 16);
	t.filled.store(filled, Ordering::Relaxed);
	t
}

fn check_read_back(t: &ValueTable, w: &crate::log::LogWriter, at: u64, buf: &[u8; CMAX], len: usize, compressed: bool, label_rc: u32) {
	let key = TableKey::NoHash;
	let got = t.query(&mut TableKeyQuery::Check(&key), at, w).unwrap();
	match got {
		Some((v, c, rc)) => {
			assert!(v.len() == len, "C06.S2 length read back");
			assert!(c == compressed, "C06.S2 compressed flag read back");
			assert!(rc == label_rc, "C06.S2 reference count of a fresh value is 1");
			let i: usize = kani::any();
			kani::assume(i < len);
			assert!(v[i] == buf[i], "C06.S2 value bytes read back bit-exact");
			std::mem::forget(v);
		},
		None => assert!(false, "C06.S2 written value is found"),
	}
	let sz = t.size(&key, at, w).unwrap();
	assert!(sz == Some((len as u32, compressed)), "C06.S2 reported size equals the length");
}

/// Walk the free list through the record view; returns how many slots it holds and checks each is a tombstone in range.
fn free_list_len(t: &ValueTable, w: &crate::log::LogWriter, max: usize) -> usize {
	let filled = t.filled.load(Ordering::Relaxed);
	let mut cur = t.last_removed.load(Ordering::Relaxed);
	let mut n = 0;
	let mut hops = 0;
	while hops < max {
		if cur != 0 {
			assert!(cur < filled, "C06.S4 free list stays below the fill mark");
			let mut b = [0u8; 10];
			assert!(vl::rec_get(w, t.id, cur, &mut b), "C06.S4 freed slot is in the record");
			assert!(b[0] == 0xff && b[1] == 0xff, "C06.S4 freed slot is a tombstone");
			cur = le64(&b, 2);
			n += 1;
		}
		hops += 1;
	}
	assert!(cur == 0, "C06.S4 free list terminates");
	n
}

fn insert_read_case(len: usize, rc: bool) {
	let buf: [u8; CMAX] = kani::any();
	let compressed: bool = kani::any();
	let t = chain_table(rc, 1);
	let overlays = vl::new_overlays();
	let mut w = crate::log::LogWriter::new(&overlays, 1);
	let key = TableKey::NoHash;
	let at = t.write_insert_plan(&key, &buf[..len], &mut w, compressed).unwrap();
	assert!(at == 1, "C06.S2 first free slot used");
	let n = parts_needed(len + if rc { 4 } else { 0 }, CE);
	assert!(t.filled.load(Ordering::Relaxed) == 1 + n as u64, "C06.S2 exactly the needed number of parts allocated");
	assert!(unsafe { vl::OV_WRITES } == n, "C06.S2 one write per part");
	check_read_back(&t, &w, at, &buf, len, compressed, 1);
	// S4 remove: value gone, all parts on the free list, each once
	t.write_remove_plan(at, &mut w).unwrap();
	let gone = t.query(&mut TableKeyQuery::Check(&key), at, &w).unwrap();
	assert!(gone.is_none(), "C06.S4 removed value is not readable");
	assert!(free_list_len(&t, &w, 6) == n, "C06.S4 every part of the removed value is on the free list exactly once");
	assert!(t.filled.load(Ordering::Relaxed) == 1 + n as u64, "C06.S4 fill mark unchanged by removal");
	kani::cover!(n >= 2);
	std::mem::forget(gone);
	std::mem::forget(w); std::mem::forget(t); std::mem::forget(overlays);
}

fn replace_case(old_len: usize, new_len: usize, rc: bool) {
	let buf_old: [u8; CMAX] = kani::any();
	let buf: [u8; CMAX] = kani::any();
	let compressed: bool = kani::any();
	let t = chain_table(rc, 1);
	let overlays = vl::new_overlays();
	let mut w = crate::log::LogWriter::new(&overlays, 1);
	let key = TableKey::NoHash;
	let at = t.write_insert_plan(&key, &buf_old[..old_len], &mut w, kani::any()).unwrap();
	let extra = if rc { 4 } else { 0 };
	let n_old = parts_needed(old_len + extra, CE);
	let n_new = parts_needed(new_len + extra, CE);
	t.write_replace_plan(at, &key, &buf[..new_len], &mut w, compressed).unwrap();
	check_read_back(&t, &w, at, &buf, new_len, compressed, 1);
	let freed = free_list_len(&t, &w, 6);
	if n_new <= n_old {
		assert!(freed == n_old - n_new, "C06.S3 shrinking releases exactly the dropped parts");
		assert!(t.filled.load(Ordering::Relaxed) == 1 + n_old as u64, "C06.S3 no new slot when not growing");
	} else {
		assert!(freed == 0, "C06.S3 growing releases nothing");
		assert!(t.filled.load(Ordering::Relaxed) == 1 + n_new as u64, "C06.S3 growing allocates exactly the missing parts");
	}
	kani::cover!(n_new != n_old);
	std::mem::forget(w); std::mem::forget(t); std::mem::forget(overlays);
}

/// Case split over a set of concrete lengths chosen by a symbolic selector (lengths feed loop bounds and slice sizes: DESIGN section 4).
fn pick(lens: &[usize]) -> usize { let s: usize = kani::any(); kani::assume(s < lens.len()); s }

macro_rules! c06_insert {
	($name:ident, $rc:expr, [$($l:expr),*]) => {
		crate::verif_tbl! {
			#[kani::proof]
			#[kani::unwind(102)]
			fn $name() {
				const L: &[usize] = &[$($l),*];
				let s = pick(L);
				let mut c = 0;
				while c < L.len() { if c == s { insert_read_case(L[c], $rc); } c += 1; }
			}
		}
	};
}
macro_rules! c06_replace {
	($name:ident, $rc:expr, [$(($o:expr, $n:expr)),*]) => {
		crate::verif_tbl! {
			#[kani::proof]
			#[kani::unwind(102)]
			fn $name() {
				const L: &[(usize, usize)] = &[$(($o, $n)),*];
				let s: usize = kani::any();
				kani::assume(s < L.len());
				let mut c = 0;
				while c < L.len() { if c == s { replace_case(L[c].0, L[c].1, $rc); } c += 1; }
			}
		}
	};
}

// part boundaries for entry 32 / NoHash / no rc: single <= 30; 2 parts <= 22+30 = 52; 3 parts <= 74; 4 parts <= 96
c06_insert!(c06_s2_insert_read_boundaries, false, [0, 1, 30, 31, 52, 53, 74, 75, 96]);
c06_insert!(c06_s2_insert_read_boundaries_rc, true, [0, 26, 27, 48, 49, 70, 71]);
c06_insert!(c06_s2_insert_read_l0, false, [2, 3, 4, 5, 6, 7, 8, 9, 10, 11, 12]);
c06_insert!(c06_s2_insert_read_l1, false, [13, 14, 15, 16, 17, 18, 19, 20, 21, 22, 23]);
c06_insert!(c06_s2_insert_read_l2, false, [24, 25, 26, 27, 28, 29, 32, 33, 34, 35, 36]);
c06_insert!(c06_s2_insert_read_l3, false, [37, 38, 39, 40, 41, 42, 43, 44, 45, 46, 47]);
c06_insert!(c06_s2_insert_read_l4, false, [48, 49, 50, 51, 54, 55, 56, 57, 58, 59, 60]);
c06_insert!(c06_s2_insert_read_l5, false, [61, 62, 63, 64, 65, 66, 67, 68, 69, 70, 71]);
c06_insert!(c06_s2_insert_read_l6, false, [72, 73, 76, 77, 78, 79, 80, 81, 82, 83, 84]);
c06_insert!(c06_s2_insert_read_l7, false, [85, 86, 87, 88, 89, 90, 91, 92, 93, 94, 95]);
c06_replace!(c06_s3_replace_boundaries, false, [(0, 31), (31, 0), (30, 53), (53, 30), (52, 75), (75, 1), (10, 20), (60, 40)]);
c06_replace!(c06_s3_replace_boundaries_rc, true, [(0, 27), (27, 0), (26, 49), (49, 26), (71, 5)]);
c06_replace!(c06_s3_replace_more, false, [(96, 0), (0, 96), (74, 75), (75, 74), (31, 52), (52, 31), (53, 53), (1, 30)]);

// =====================================================================================
// C06.S1a: tier table facts — value_size per real tier; a size field can never alias a marker
// =====================================================================================
#[kani::proof]
#[kani::unwind(260)]
fn c06_s1a_value_size_per_tier() {
	let sizes = &crate::column::verif_kani::sizes();
	let rc: bool = kani::any();
	let partial: bool = kani::any();
	let key = if partial { TableKey::Partial([0u8; 32]) } else { TableKey::NoHash };
	let mut i = 0;
	let mut prev = 0u16;
	while i < sizes.len() {
		let e = sizes[i];
		assert!(e > prev, "C06.S1 tier sizes strictly increase");
		assert!(e as usize >= MIN_ENTRY_SIZE && e as usize <= MAX_ENTRY_SIZE, "C06.S1 tier size in range");
		let t = ValueTable { id: TableId::new(0, i as u8), entry_size: e, file: vf::new_file(TableId::new(0, 0), 0), filled: AtomicU64::new(1), written: AtomicU64::new(1),
			last_removed: AtomicU64::new(0), dirty_header: AtomicBool::new(false), needs_free_entries: false, free_entries: None, multipart: false, ref_counted: rc,
			db_version: crate::options::CURRENT_VERSION };
		let want = e as i32 - 2 - if rc { 4 } else { 0 } - if partial { 26 } else { 0 };
		let vs = t.value_size(&key);
		if want >= 0 { assert!(vs == Some(want as u16), "C06.S1 value_size = entry - size field - rc - key"); } else { assert!(vs.is_none(), "C06.S1 key does not fit"); }
		// the largest size field this tier can write never aliases a marker (0xfffd..0xffff, 0x7ffd compressed head)
		assert!((e - 2) < 0x7ffd, "C06.S1 size field never aliases a multipart / tombstone marker");
		prev = e;
		std::mem::forget(t);
		i += 1;
	}
	assert!(sizes.len() == SIZE_TIERS - 1, "C06.S1 255 fixed tiers + the multipart tier");
}


// =====================================================================================
// C01.G1: value-table ids map injectively into the log overlay array (a collision would let two tables share overlay entries)
// =====================================================================================
#[kani::proof]
fn c01_g1_value_table_log_index() {
	let (c1, t1, c2, t2): (u8, u8, u8, u8) = (kani::any(), kani::any(), kani::any(), kani::any());
	let a = TableId::new(c1, t1);
	let b = TableId::new(c2, t2);
	assert!(a.col() == c1 && a.size_tier() == t1, "C01.G1 table id packs column and tier");
	assert!(TableId::from_log_index(a.log_index()) == a, "C01.G1 value table log index round trip");
	if a.log_index() == b.log_index() { assert!(a == b, "C01.G1 value table log index injective"); }
	let n: usize = kani::any();
	kani::assume(n >= 1 && n <= 256 && (c1 as usize) < n);
	assert!(a.log_index() < TableId::max_log_tables(n), "C01.G1 log index within the overlay array of an n-column database");
	assert!(TableId::from_u16(a.as_u16()) == a, "C01.G1 u16 round trip");
}

// =====================================================================================
// C14.T0: the in-memory free stack built at open equals the on-disk free list (top of stack = list head)
// =====================================================================================
crate::verif_tbl! {
#[kani::proof]
#[kani::unwind(200)]
fn c14_t0_init_free_stack_matches_disk_list() {
	let disk: [u8; TE * TN] = kani::any();
	let filled: u64 = kani::any();
	let last_removed: u64 = kani::any();
	let (list, n) = assume_free_list(&disk, filled, last_removed);
	kani::assume(n <= 3);
	let mut t = mk(TableId::new(0, 0), TE as u16, false, false, 8);
	t.needs_free_entries = true;
	preload(&t, &disk);
	t.filled.store(filled, Ordering::Relaxed);
	t.last_removed.store(last_removed, Ordering::Relaxed);
	t.init_table_data().unwrap();
	let stack = free_stack_of(&t);
	assert!(stack.len() == n, "C14.T0 free stack has one entry per free slot");
	let j: usize = kani::any();
	kani::assume(j < n);
	assert!(stack[n - 1 - j] == list[j], "C14.T0 free stack mirrors the on-disk list (head on top)");
	// and claiming pops in list order
	if n >= 1 {
		let got = t.claim_entries(1).unwrap();
		assert!(got.len() == 1 && got[0] == list[0], "C14.T0 claim hands out the list head");
		assert!(t.last_removed.load(Ordering::Relaxed) == if n >= 2 { list[1] } else { 0 }, "C14.T0 claim advances the head to its successor");
		std::mem::forget(got);
	}
	kani::cover!(n == 3);
	kani::cover!(n == 0);
	std::mem::forget(stack);
	std::mem::forget(t);
}
}
