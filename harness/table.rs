//! Harnesses for src/table.rs: C07.R1 (counter arithmetic), C14.T1/T2 (free list steps), C06.S1a/S2-S4 (value chains),
//! C13.P2 (validate_plan / enact_plan on arbitrary payloads).
#![allow(dead_code, unused_imports, static_mut_refs)]
use super::*;
use crate::file::verif_kani as vf;
use crate::log::verif_kani as vl;
use crate::verif_common as vc;

pub fn mk(id: TableId, entry_size: u16, multipart: bool, ref_counted: bool, capacity: u64) -> ValueTable {
	ValueTable {
		id,
		entry_size,
		file: vf::new_file(id, capacity),
		filled: AtomicU64::new(1),
		written: AtomicU64::new(1),
		last_removed: AtomicU64::new(0),
		dirty_header: AtomicBool::new(false),
		needs_free_entries: false,
		free_entries: None,
		multipart,
		ref_counted,
		db_version: crate::options::CURRENT_VERSION,
	}
}

/// Multitree-style table: keeps the in-memory free stack (claim_entries needs it).
pub fn mk_mt(id: TableId, entry_size: u16, multipart: bool, capacity: u64, stack: Vec<u64>) -> ValueTable {
	let mut t = mk(id, entry_size, multipart, false, capacity);
	t.needs_free_entries = true;
	t.free_entries = Some(RwLock::new(FreeEntries { stack }));
	t
}
pub fn free_stack_of(t: &ValueTable) -> Vec<u64> { t.free_entries.as_ref().map(|f| f.read().stack.clone()).unwrap_or_default() }

pub fn is_multipart(t: &ValueTable) -> bool { t.multipart }
pub fn entry_size_of(t: &ValueTable) -> usize { t.entry_size as usize }
pub fn set_filled(t: &ValueTable, v: u64) { t.filled.store(v, Ordering::Relaxed); }
pub fn set_last_removed(t: &ValueTable, v: u64) { t.last_removed.store(v, Ordering::Relaxed); }
pub fn filled_of(t: &ValueTable) -> u64 { t.filled.load(Ordering::Relaxed) }
pub fn last_removed_of(t: &ValueTable) -> u64 { t.last_removed.load(Ordering::Relaxed) }
pub fn dirty_of(t: &ValueTable) -> bool { t.dirty_header.load(Ordering::Relaxed) }
pub fn file_of(t: &ValueTable) -> &crate::file::TableFile { &t.file }

fn le64(b: &[u8], o: usize) -> u64 { u64::from_le_bytes([b[o], b[o + 1], b[o + 2], b[o + 3], b[o + 4], b[o + 5], b[o + 6], b[o + 7]]) }

// =====================================================================================
// C07.R1: counter arithmetic for every stored u32 counter
// =====================================================================================
fn change_ref_case(in_overlay: bool, multipart_head: bool) {
	const E: usize = 64;
	let t = mk(TableId::new(0, 0), E as u16, multipart_head, true, 8);
	t.filled.store(3, Ordering::Relaxed);
	let overlays = vl::new_overlays();
	let mut w = crate::log::LogWriter::new(&overlays, 1);
	// pre-state entry at slot 1: [size=40][rc][key 26][value 10]  or  [MULTIHEAD][next 8][rc][key 26][value ...]
	let rc: u32 = kani::any();
	let body: [u8; 64] = kani::any();
	let mut e = [0u8; E];
	let (rc_off, used) = if multipart_head {
		e[0] = 0xfd; e[1] = 0xff;
		let mut k = 0; while k < 8 { e[2 + k] = body[k]; k += 1; }
		(10usize, E)
	} else {
		e[0] = 40; e[1] = 0;
		(2usize, 42usize)
	};
	let rcb = rc.to_le_bytes();
	let mut k = 0; while k < 4 { e[rc_off + k] = rcb[k]; k += 1; }
	let mut k = rc_off + 4; while k < used { e[k] = body[k - rc_off - 4 + 8]; k += 1; }
	if in_overlay {
		let mut v = Vec::with_capacity(used);
		let mut k = 0; while k < used { v.push(e[k]); k += 1; }
		w.insert_value(t.id, 1, v);
	} else {
		vf::disk_put(&t.file, E, &e[..used]);
	}
	let up: bool = kani::any();
	let remains = t.change_ref(1, if up { 1 } else { -1 }, &mut w).unwrap();
	let mut out = [0u8; E];
	let logged = vl::rec_get(&w, t.id, 1, &mut out);
	let new_rc = u32::from_le_bytes([out[rc_off], out[rc_off + 1], out[rc_off + 2], out[rc_off + 3]]);
	if up {
		assert!(remains, "C07.R1 increment keeps the value");
		assert!(logged, "C07.R1 increment is logged");
		assert!(new_rc == if rc >= u32::MAX - 1 { u32::MAX } else { rc + 1 }, "C07.R1 increment saturates at the locked value");
	} else if rc == u32::MAX {
		assert!(remains && logged && new_rc == u32::MAX, "C07.R1 locked counter is sticky");
	} else if rc <= 1 {
		assert!(!remains, "C07.R1 count reaching zero reports removal");
		if !in_overlay { assert!(!logged, "C07.R1 no counter write when the value goes away"); }
	} else {
		assert!(remains && logged && new_rc == rc - 1, "C07.R1 decrement by one");
	}
	if remains {
		let i: usize = kani::any();
		kani::assume(i < used && !(i >= rc_off && i < rc_off + 4));
		assert!(out[i] == e[i], "C07.R1 all other bytes of the entry unchanged");
	}
	kani::cover!(up && rc == u32::MAX - 1);
	kani::cover!(!up && rc == 1);
	kani::cover!(!up && rc == 2);
	std::mem::forget(w); std::mem::forget(t); std::mem::forget(overlays);
}

crate::verif_tbl! {
#[kani::proof]
#[kani::unwind(66)]
fn c07_r1_change_ref_overlay() { change_ref_case(true, false) }
}
crate::verif_tbl! {
#[kani::proof]
#[kani::unwind(66)]
fn c07_r1_change_ref_disk() { change_ref_case(false, false) }
}
crate::verif_tbl! {
#[kani::proof]
#[kani::unwind(66)]
fn c07_r1_change_ref_multihead() { change_ref_case(false, true) }
}

/// C07.R1t: a tombstone is never re-referenced.
crate::verif_tbl! {
#[kani::proof]
#[kani::unwind(66)]
fn c07_r1_change_ref_tombstone() {
	let t = mk(TableId::new(0, 0), 64, kani::any(), true, 8);
	t.filled.store(3, Ordering::Relaxed);
	let overlays = vl::new_overlays();
	let mut w = crate::log::LogWriter::new(&overlays, 1);
	let rest: [u8; 40] = kani::any();
	let mut e = [0u8; 42];
	e[0] = 0xff; e[1] = 0xff;
	let mut k = 0; while k < 40 { e[2 + k] = rest[k]; k += 1; }
	vf::disk_put(&t.file, 64, &e);
	let up: bool = kani::any();
	let remains = t.change_ref(1, if up { 1 } else { -1 }, &mut w).unwrap();
	assert!(!remains, "C07.R1 tombstone has no count");
	let mut out = [0u8; 4];
	assert!(!vl::rec_get(&w, t.id, 1, &mut out), "C07.R1 tombstone is not rewritten");
	std::mem::forget(w); std::mem::forget(t); std::mem::forget(overlays);
}
}

// =====================================================================================
// C14.T1/T2: free-list steps from an arbitrary state satisfying the representation invariant
// =====================================================================================
const TE: usize = 32; // entry size of the inductive-step tables
const TN: usize = 6; // slots

/// Free-list part of inv(T): following `next` from last_removed reaches 0 within `filled` hops through
/// tombstones below `filled`, no slot twice. Returns the list as an array (0-terminated) and its length.
fn assume_free_list(disk: &[u8; TE * TN], filled: u64, last_removed: u64) -> ([u64; TN], usize) {
	kani::assume(filled >= 1 && filled <= TN as u64 && last_removed < filled);
	let mut seen = [false; TN];
	let mut list = [0u64; TN];
	let mut n = 0;
	let mut cur = last_removed;
	let mut hops = 0;
	while hops < TN - 1 {
		if cur != 0 {
			kani::assume(cur < filled);
			kani::assume(!seen[cur as usize]);
			seen[cur as usize] = true;
			kani::assume(disk[cur as usize * TE] == 0xff && disk[cur as usize * TE + 1] == 0xff);
			list[n] = cur;
			n += 1;
			cur = le64(disk, cur as usize * TE + 2);
		}
		hops += 1;
	}
	kani::assume(cur == 0);
	(list, n)
}

fn preload(t: &ValueTable, disk: &[u8; TE * TN]) {
	// slot by slot: keeps every loop at 32 iterations so that the harnesses can use a small unwind bound
	let mut s = 0;
	while s < TN { vf::disk_put(&t.file, s * TE, &disk[s * TE..(s + 1) * TE]); s += 1; }
}

crate::verif_tbl! {
#[kani::proof]
#[kani::unwind(66)]
fn c14_t1_next_free_step() {
	let disk: [u8; TE * TN] = kani::any();
	let filled: u64 = kani::any();
	let last_removed: u64 = kani::any();
	let (list, n) = assume_free_list(&disk, filled, last_removed);
	let t = mk(TableId::new(0, 0), TE as u16, kani::any(), kani::any(), 8);
	preload(&t, &disk);
	t.filled.store(filled, Ordering::Relaxed);
	t.last_removed.store(last_removed, Ordering::Relaxed);
	let overlays = vl::new_overlays();
	let mut w = crate::log::LogWriter::new(&overlays, 1);
	kani::assume(filled < TN as u64 || last_removed != 0); // room in the 6-slot harness file
	let idx = t.next_free(&mut w).unwrap();
	if last_removed != 0 {
		assert!(idx == last_removed, "C14.T1 pops the head of the free list");
		assert!(t.last_removed.load(Ordering::Relaxed) == if n >= 2 { list[1] } else { 0 }, "C14.T1 new head is the old head's successor");
		assert!(t.filled.load(Ordering::Relaxed) == filled, "C14.T1 fill mark unchanged when reusing");
	} else {
		assert!(idx == filled, "C14.T1 extends at the fill mark when the list is empty");
		assert!(t.filled.load(Ordering::Relaxed) == filled + 1, "C14.T1 fill mark advances by one");
		assert!(t.last_removed.load(Ordering::Relaxed) == 0, "C14.T1 list stays empty");
	}
	assert!(idx != 0, "C14.T1 never hands out the header slot");
	assert!(t.dirty_header.load(Ordering::Relaxed), "C14.T1 header marked dirty");
	// the remaining list is still a valid list that does not contain idx
	let mut j = 0;
	while j < TN { if j >= 1 && j < n { assert!(list[j] != idx, "C14.T1 handed-out slot is no longer on the list"); } j += 1; }
	// complete_plan logs exactly the new header
	t.complete_plan(&mut w).unwrap();
	let mut h = [0u8; 16];
	assert!(vl::rec_get(&w, t.id, 0, &mut h), "C14.T2h header logged after a change");
	assert!(le64(&h, 0) == t.last_removed.load(Ordering::Relaxed) && le64(&h, 8) == t.filled.load(Ordering::Relaxed), "C14.T2h logged header equals the in-memory one");
	assert!(!t.dirty_header.load(Ordering::Relaxed), "C14.T2h dirty flag cleared");
	kani::cover!(n >= 2);
	kani::cover!(last_removed == 0 && filled == 3);
	std::mem::forget(w); std::mem::forget(t); std::mem::forget(overlays);
}
}

crate::verif_tbl! {
#[kani::proof]
#[kani::unwind(66)]
fn c14_t2_clear_slot_step() {
	let disk: [u8; TE * TN] = kani::any();
	let filled: u64 = kani::any();
	let last_removed: u64 = kani::any();
	let (list, n) = assume_free_list(&disk, filled, last_removed);
	let t = mk(TableId::new(0, 0), TE as u16, false, kani::any(), 8);
	preload(&t, &disk);
	t.filled.store(filled, Ordering::Relaxed);
	t.last_removed.store(last_removed, Ordering::Relaxed);
	let overlays = vl::new_overlays();
	let mut w = crate::log::LogWriter::new(&overlays, 1);
	// free a live slot (not on the list)
	let idx: u64 = kani::any();
	kani::assume(idx >= 1 && idx < filled);
	let mut j = 0;
	while j < TN { if j < n { kani::assume(list[j] != idx); } j += 1; }
	t.write_remove_plan(idx, &mut w).unwrap();
	assert!(t.last_removed.load(Ordering::Relaxed) == idx, "C14.T2 freed slot becomes the head");
	assert!(t.filled.load(Ordering::Relaxed) == filled, "C14.T2 fill mark unchanged");
	assert!(t.dirty_header.load(Ordering::Relaxed), "C14.T2 header marked dirty");
	let mut out = [0u8; 10];
	assert!(vl::rec_get(&w, t.id, idx, &mut out), "C14.T2 tombstone logged");
	assert!(out[0] == 0xff && out[1] == 0xff, "C14.T2 tombstone marker");
	assert!(le64(&out, 2) == last_removed, "C14.T2 tombstone links to the previous head");
	assert!(unsafe { vl::OV_WRITES } == 1, "C14.T2 no other slot is written");
	// and the very next allocation reuses it and restores the previous head
	let again = t.next_free(&mut w).unwrap();
	assert!(again == idx, "C14.T2 freed slot is reused first");
	assert!(t.last_removed.load(Ordering::Relaxed) == last_removed, "C14.T2 previous head restored");
	kani::cover!(n >= 1);
	kani::cover!(n == 0);
	std::mem::forget(w); std::mem::forget(t); std::mem::forget(overlays);
}
}

/// Must-fail twin for the table family.
crate::verif_tbl! {
#[kani::proof]
#[kani::unwind(66)]
fn c14_twin_must_fail() {
	let disk: [u8; TE * TN] = kani::any();
	let filled: u64 = kani::any();
	let last_removed: u64 = kani::any();
	let (_list, _n) = assume_free_list(&disk, filled, last_removed);
	let t = mk(TableId::new(0, 0), TE as u16, false, false, 8);
	preload(&t, &disk);
	t.filled.store(filled, Ordering::Relaxed);
	t.last_removed.store(last_removed, Ordering::Relaxed);
	let overlays = vl::new_overlays();
	let mut w = crate::log::LogWriter::new(&overlays, 1);
	kani::assume(filled < TN as u64 || last_removed != 0);
	let idx = t.next_free(&mut w).unwrap();
	assert!(idx == filled, "TWIN allocation always extends (must fail)");
	std::mem::forget(w); std::mem::forget(t); std::mem::forget(overlays);
}
}

// =====================================================================================
// C06.S2-S4: value layout — write and read are each checked against the on-disk format specification
// (table.rs header comment), per value length. Shrunk entry size 32: the code is generic in entry_size.
//
// Why through a specification and not write-then-read: the write path copies every entry with memcpy
// (`buf[..n].to_vec()`); CBMC models memcpy with opaque array primitives, so constants (markers, next pointers)
// do not survive it in symbolic execution and a read-back in the same harness unwinds every chain-walk loop to
// the bound (probed: > 25 min per length). Checking "write produces exactly the specified bytes" (W) and
// "the specified bytes read back as the value / are released" (R) separately keeps all control flow concrete.
// =====================================================================================
const CE: usize = 32; // part size (NoHash keys: btree / multitree style entries)
const CMAX: usize = 100; // longest value
const CP: usize = 4; // most parts

/// Number of parts `total` = value + rc bytes needs with entry size `e`.
fn parts_needed(total: usize, e: usize) -> usize {
	let free = e - 2;
	let mut rem = total;
	let mut n = 1;
	while rem > free { rem -= free - 8; n += 1; }
	n
}

/// The format specification: bytes of each part of a value of `len` bytes stored at `slots` (chain order).
/// rc = Some(counter) for ref-counted tables. Returns (entries, entry lengths, number of parts).
fn spec_layout(value: &[u8; CMAX], len: usize, rc: Option<u32>, compressed: bool, slots: &[u64; CP]) -> ([[u8; CE]; CP], [usize; CP], usize) {
	let mut out = [[0u8; CE]; CP];
	let mut lens = [0usize; CP];
	let rcs = if rc.is_some() { 4 } else { 0 };
	let total = len + rcs;
	let n = parts_needed(total, CE);
	let mut rem = total; // bytes (rc + value) still to place
	let mut voff = 0; // value bytes placed
	let mut p = 0;
	while p < CP {
		if p < n {
			let mut o;
			let cap;
			if rem > CE - 2 {
				// head or continuation: [marker 2][next 8][..22]
				if p == 0 { out[p][0] = 0xfd; out[p][1] = if compressed { 0x7f } else { 0xff }; } else { out[p][0] = 0xfe; out[p][1] = 0xff; }
				let nx = slots[p + 1].to_le_bytes();
				let mut k = 0; while k < 8 { out[p][2 + k] = nx[k]; k += 1; }
				o = 10;
				cap = CE - 10;
				lens[p] = CE;
			} else {
				let sz = (rem as u16) | if compressed { 0x8000 } else { 0 };
				out[p][0] = sz.to_le_bytes()[0]; out[p][1] = sz.to_le_bytes()[1];
				o = 2;
				cap = rem;
				lens[p] = 2 + rem;
			}
			let mut used = 0;
			if p == 0 {
				if let Some(c) = rc { let b = c.to_le_bytes(); let mut k = 0; while k < 4 { out[p][o + k] = b[k]; k += 1; } o += 4; used = 4; }
			}
			let mut k = 0;
			while k < CE { if used + k < cap { out[p][o + k] = value[voff + k]; } k += 1; }
			voff += cap - used;
			rem -= cap;
		}
		p += 1;
	}
	(out, lens, n)
}

fn layout_table(rc: bool, multipart: bool) -> ValueTable { mk(TableId::new(0, 0), CE as u16, multipart, rc, 16) }

/// Put the specified entries into the record overlay / on disk (element-wise, headers concrete).
fn preload_layout(t: &ValueTable, w: &mut crate::log::LogWriter, on_disk: bool, ents: &[[u8; CE]; CP], lens: &[usize; CP], n: usize, slots: &[u64; CP]) {
	let mut p = 0;
	while p < CP {
		if p < n {
			if on_disk {
				vf::disk_put(&t.file, slots[p] as usize * CE, &ents[p][..lens[p]]);
			} else {
				let mut v = Vec::with_capacity(lens[p]);
				let mut k = 0; while k < CE { if k < lens[p] { v.push(ents[p][k]); } k += 1; }
				w.insert_value(t.id, slots[p], v);
			}
		}
		p += 1;
	}
}

/// W: write_insert_plan produces exactly the specified entries at consecutive fresh slots.
fn write_case(len: usize, rc: bool, compressed: bool) {
	let value: [u8; CMAX] = kani::any();
	let n = parts_needed(len + if rc { 4 } else { 0 }, CE);
	let t = layout_table(rc, n > 1);
	let overlays = vl::new_overlays();
	let mut w = crate::log::LogWriter::new(&overlays, 1);
	let at = t.write_insert_plan(&TableKey::NoHash, &value[..len], &mut w, compressed).unwrap();
	assert!(at == 1, "C06.S2 first free slot used");
	assert!(t.filled.load(Ordering::Relaxed) == 1 + n as u64, "C06.S2 exactly the needed number of parts allocated");
	assert!(unsafe { vl::OV_WRITES } == n, "C06.S2 one write per part");
	let slots = [1u64, 2, 3, 4];
	let (ents, lens, n2) = spec_layout(&value, len, if rc { Some(1) } else { None }, compressed, &[1, 2, 3, 4]);
	assert!(n2 == n, "spec self-check");
	let mut p = 0;
	while p < CP {
		if p < n {
			let mut out = [0u8; CE];
			assert!(vl::rec_get(&w, t.id, slots[p], &mut out), "C06.S2 every part is in the record");
			assert!(unsafe { vl::OV_LEN[0][slots[p] as usize] } == lens[p], "C06.S2 part length as specified");
			let k: usize = kani::any();
			kani::assume(k < lens[p]);
			assert!(out[k] == ents[p][k], "C06.S2 written part equals the format specification (marker, next pointer, counter, size, payload)");
		}
		p += 1;
	}
	kani::cover!(true);
	std::mem::forget(w); std::mem::forget(t); std::mem::forget(overlays);
}

/// R: the specified entries (at arbitrary distinct slots, in the overlay or on disk) read back as the value, with the
/// right size / flag / counter; removing them puts every part on the free list exactly once.
fn read_case(len: usize, rc: bool, compressed: bool) {
	let on_disk = false; // reads from the file go through a guard struct (same constant-propagation trap as LogWriterValueGuard)
	let value: [u8; CMAX] = kani::any();
	let counter: u32 = kani::any();
	kani::assume(counter >= 1);
	let n = parts_needed(len + if rc { 4 } else { 0 }, CE);
	let t = layout_table(rc, n > 1);
	t.filled.store(6, Ordering::Relaxed);
	let overlays = vl::new_overlays();
	let mut w = crate::log::LogWriter::new(&overlays, 1);
	// a scattered chain: 4 -> 2 -> 5 -> 3
	let slots = [4u64, 2, 5, 3];
	let (ents, lens, _) = spec_layout(&value, len, if rc { Some(counter) } else { None }, compressed, &slots);
	preload_layout(&t, &mut w, on_disk, &ents, &lens, n, &slots);
	let key = TableKey::NoHash;
	let view = vl::OvView;
	let got = t.query(&mut TableKeyQuery::Check(&key), 4, &view).unwrap();
	match got {
		Some((v, c, r)) => {
			assert!(v.len() == len, "C06.S2 length read back");
			assert!(c == compressed, "C06.S2 compressed flag read back");
			assert!(r == if rc { counter } else { 1 }, "C06.S2 reference count read back");
			if len > 0 {
				let i: usize = kani::any();
				kani::assume(i < len);
				assert!(v[i] == value[i], "C06.S2 value bytes read back bit-exact");
			}
			std::mem::forget(v);
		},
		None => assert!(false, "C06.S2 stored value is found"),
	}
	assert!(t.size(&key, 4, &view).unwrap() == Some((len as u32, compressed)), "C06.S2 reported size equals the length");
	// S4: removal releases every part exactly once
	let writes0 = unsafe { vl::OV_WRITES };
	t.write_remove_plan(4, &mut w).unwrap();
	assert!(unsafe { vl::OV_WRITES } == writes0 + n, "C06.S4 exactly the parts of the value are rewritten");
	let gone = t.query(&mut TableKeyQuery::Check(&key), 4, &view).unwrap();
	assert!(gone.is_none(), "C06.S4 removed value is not readable");
	// free list: last freed first; walk it
	let mut cur = t.last_removed.load(Ordering::Relaxed);
	let mut seen = [false; 8];
	let mut cnt = 0;
	let mut hops = 0;
	while hops < CP + 1 {
		if cur != 0 {
			assert!(cur < 6 && !seen[cur as usize], "C06.S4 free list in range, no slot twice");
			seen[cur as usize] = true;
			let mut b = [0u8; 10];
			assert!(vl::rec_get(&w, t.id, cur, &mut b) && b[0] == 0xff && b[1] == 0xff, "C06.S4 freed part is a tombstone");
			cur = le64(&b, 2);
			cnt += 1;
		}
		hops += 1;
	}
	assert!(cur == 0 && cnt == n, "C06.S4 every part of the removed value is on the free list exactly once");
	let mut p = 0;
	while p < CP { if p < n { assert!(seen[slots[p] as usize], "C06.S4 each part was released"); } p += 1; }
	assert!(t.dirty_header.load(Ordering::Relaxed), "C06.S4 header marked dirty");
	kani::cover!(true);
	std::mem::forget(gone);
	std::mem::forget(w); std::mem::forget(t); std::mem::forget(overlays);
}

/// S3: replacing a stored value (specified old layout at scattered slots) writes exactly the specified new layout:
/// old parts are reused in chain order, missing parts come from the fill mark, surplus parts become tombstones.
fn replace_case(old_len: usize, new_len: usize, rc: bool, compressed: bool) {
	let old: [u8; CMAX] = kani::any();
	let value: [u8; CMAX] = kani::any();
	let rcs = if rc { 4 } else { 0 };
	let n_old = parts_needed(old_len + rcs, CE);
	let n_new = parts_needed(new_len + rcs, CE);
	let t = layout_table(rc, n_old > 1);
	t.filled.store(6, Ordering::Relaxed);
	let overlays = vl::new_overlays();
	let mut w = crate::log::LogWriter::new(&overlays, 1);
	let slots = [4u64, 2, 5, 3];
	let (ents, lens, _) = spec_layout(&old, old_len, if rc { Some(1) } else { None }, !compressed, &slots);
	preload_layout(&t, &mut w, true, &ents, &lens, n_old, &slots);
	t.write_replace_plan(4, &TableKey::NoHash, &value[..new_len], &mut w, compressed).unwrap();
	// expected slots of the new chain: reuse old ones in order, then fresh ones from the fill mark (6, 7, ...)
	let mut nslots = [0u64; CP];
	let mut fresh = 6u64;
	let mut p = 0;
	while p < CP { if p < n_new { if p < n_old { nslots[p] = slots[p]; } else { nslots[p] = fresh; fresh += 1; } } p += 1; }
	let (nents, nlens, _) = spec_layout(&value, new_len, if rc { Some(1) } else { None }, compressed, &nslots);
	let mut p = 0;
	while p < CP {
		if p < n_new {
			let mut out = [0u8; CE];
			assert!(vl::rec_get(&w, t.id, nslots[p], &mut out), "C06.S3 every new part is in the record");
			let k: usize = kani::any();
			kani::assume(k < nlens[p]);
			assert!(out[k] == nents[p][k], "C06.S3 replaced value equals the format specification");
		} else if p < n_old {
			let mut out = [0u8; 10];
			assert!(vl::rec_get(&w, t.id, slots[p], &mut out) && out[0] == 0xff && out[1] == 0xff, "C06.S3 surplus old part is released (tombstone)");
		}
		p += 1;
	}
	assert!(t.filled.load(Ordering::Relaxed) == fresh, "C06.S3 fill mark advances exactly by the missing parts");
	if n_new < n_old { assert!(t.last_removed.load(Ordering::Relaxed) != 0, "C06.S3 released parts are on the free list"); }
	else { assert!(t.last_removed.load(Ordering::Relaxed) == 0, "C06.S3 nothing released when not shrinking"); }
	kani::cover!(true);
	std::mem::forget(w); std::mem::forget(t); std::mem::forget(overlays);
}

macro_rules! c06_case {
	($name:ident, $body:expr) => {
		crate::verif_tbl! {
			#[kani::proof]
			#[kani::unwind(102)]
			fn $name() { $body }
		}
	};
}
c06_case!(c06_w_len0, { let c: bool = kani::any(); if c { write_case(0, false, true) } else { write_case(0, false, false) } });
c06_case!(c06_r_len0, { let c: bool = kani::any(); if c { read_case(0, false, true) } else { read_case(0, false, false) } });
c06_case!(c06_w_len1, { let c: bool = kani::any(); if c { write_case(1, false, true) } else { write_case(1, false, false) } });
c06_case!(c06_r_len1, { let c: bool = kani::any(); if c { read_case(1, false, true) } else { read_case(1, false, false) } });
c06_case!(c06_w_len2, { let c: bool = kani::any(); if c { write_case(2, false, true) } else { write_case(2, false, false) } });
c06_case!(c06_r_len2, { let c: bool = kani::any(); if c { read_case(2, false, true) } else { read_case(2, false, false) } });
c06_case!(c06_w_len3, { let c: bool = kani::any(); if c { write_case(3, false, true) } else { write_case(3, false, false) } });
c06_case!(c06_r_len3, { let c: bool = kani::any(); if c { read_case(3, false, true) } else { read_case(3, false, false) } });
c06_case!(c06_w_len4, { let c: bool = kani::any(); if c { write_case(4, false, true) } else { write_case(4, false, false) } });
c06_case!(c06_r_len4, { let c: bool = kani::any(); if c { read_case(4, false, true) } else { read_case(4, false, false) } });
c06_case!(c06_w_len5, { let c: bool = kani::any(); if c { write_case(5, false, true) } else { write_case(5, false, false) } });
c06_case!(c06_r_len5, { let c: bool = kani::any(); if c { read_case(5, false, true) } else { read_case(5, false, false) } });
c06_case!(c06_w_len6, { let c: bool = kani::any(); if c { write_case(6, false, true) } else { write_case(6, false, false) } });
c06_case!(c06_r_len6, { let c: bool = kani::any(); if c { read_case(6, false, true) } else { read_case(6, false, false) } });
c06_case!(c06_w_len7, { let c: bool = kani::any(); if c { write_case(7, false, true) } else { write_case(7, false, false) } });
c06_case!(c06_r_len7, { let c: bool = kani::any(); if c { read_case(7, false, true) } else { read_case(7, false, false) } });
c06_case!(c06_w_len8, { let c: bool = kani::any(); if c { write_case(8, false, true) } else { write_case(8, false, false) } });
c06_case!(c06_r_len8, { let c: bool = kani::any(); if c { read_case(8, false, true) } else { read_case(8, false, false) } });
c06_case!(c06_w_len9, { let c: bool = kani::any(); if c { write_case(9, false, true) } else { write_case(9, false, false) } });
c06_case!(c06_r_len9, { let c: bool = kani::any(); if c { read_case(9, false, true) } else { read_case(9, false, false) } });
c06_case!(c06_w_len10, { let c: bool = kani::any(); if c { write_case(10, false, true) } else { write_case(10, false, false) } });
c06_case!(c06_r_len10, { let c: bool = kani::any(); if c { read_case(10, false, true) } else { read_case(10, false, false) } });
c06_case!(c06_w_len11, { let c: bool = kani::any(); if c { write_case(11, false, true) } else { write_case(11, false, false) } });
c06_case!(c06_r_len11, { let c: bool = kani::any(); if c { read_case(11, false, true) } else { read_case(11, false, false) } });
c06_case!(c06_w_len12, { let c: bool = kani::any(); if c { write_case(12, false, true) } else { write_case(12, false, false) } });
c06_case!(c06_r_len12, { let c: bool = kani::any(); if c { read_case(12, false, true) } else { read_case(12, false, false) } });
c06_case!(c06_w_len13, { let c: bool = kani::any(); if c { write_case(13, false, true) } else { write_case(13, false, false) } });
c06_case!(c06_r_len13, { let c: bool = kani::any(); if c { read_case(13, false, true) } else { read_case(13, false, false) } });
c06_case!(c06_w_len14, { let c: bool = kani::any(); if c { write_case(14, false, true) } else { write_case(14, false, false) } });
c06_case!(c06_r_len14, { let c: bool = kani::any(); if c { read_case(14, false, true) } else { read_case(14, false, false) } });
c06_case!(c06_w_len15, { let c: bool = kani::any(); if c { write_case(15, false, true) } else { write_case(15, false, false) } });
c06_case!(c06_r_len15, { let c: bool = kani::any(); if c { read_case(15, false, true) } else { read_case(15, false, false) } });
c06_case!(c06_w_len16, { let c: bool = kani::any(); if c { write_case(16, false, true) } else { write_case(16, false, false) } });
c06_case!(c06_r_len16, { let c: bool = kani::any(); if c { read_case(16, false, true) } else { read_case(16, false, false) } });
c06_case!(c06_w_len17, { let c: bool = kani::any(); if c { write_case(17, false, true) } else { write_case(17, false, false) } });
c06_case!(c06_r_len17, { let c: bool = kani::any(); if c { read_case(17, false, true) } else { read_case(17, false, false) } });
c06_case!(c06_w_len18, { let c: bool = kani::any(); if c { write_case(18, false, true) } else { write_case(18, false, false) } });
c06_case!(c06_r_len18, { let c: bool = kani::any(); if c { read_case(18, false, true) } else { read_case(18, false, false) } });
c06_case!(c06_w_len19, { let c: bool = kani::any(); if c { write_case(19, false, true) } else { write_case(19, false, false) } });
c06_case!(c06_r_len19, { let c: bool = kani::any(); if c { read_case(19, false, true) } else { read_case(19, false, false) } });
c06_case!(c06_w_len20, { let c: bool = kani::any(); if c { write_case(20, false, true) } else { write_case(20, false, false) } });
c06_case!(c06_r_len20, { let c: bool = kani::any(); if c { read_case(20, false, true) } else { read_case(20, false, false) } });
c06_case!(c06_w_len21, { let c: bool = kani::any(); if c { write_case(21, false, true) } else { write_case(21, false, false) } });
c06_case!(c06_r_len21, { let c: bool = kani::any(); if c { read_case(21, false, true) } else { read_case(21, false, false) } });
c06_case!(c06_w_len22, { let c: bool = kani::any(); if c { write_case(22, false, true) } else { write_case(22, false, false) } });
c06_case!(c06_r_len22, { let c: bool = kani::any(); if c { read_case(22, false, true) } else { read_case(22, false, false) } });
c06_case!(c06_w_len23, { let c: bool = kani::any(); if c { write_case(23, false, true) } else { write_case(23, false, false) } });
c06_case!(c06_r_len23, { let c: bool = kani::any(); if c { read_case(23, false, true) } else { read_case(23, false, false) } });
c06_case!(c06_w_len24, { let c: bool = kani::any(); if c { write_case(24, false, true) } else { write_case(24, false, false) } });
c06_case!(c06_r_len24, { let c: bool = kani::any(); if c { read_case(24, false, true) } else { read_case(24, false, false) } });
c06_case!(c06_w_len25, { let c: bool = kani::any(); if c { write_case(25, false, true) } else { write_case(25, false, false) } });
c06_case!(c06_r_len25, { let c: bool = kani::any(); if c { read_case(25, false, true) } else { read_case(25, false, false) } });
c06_case!(c06_w_len26, { let c: bool = kani::any(); if c { write_case(26, false, true) } else { write_case(26, false, false) } });
c06_case!(c06_r_len26, { let c: bool = kani::any(); if c { read_case(26, false, true) } else { read_case(26, false, false) } });
c06_case!(c06_w_len27, { let c: bool = kani::any(); if c { write_case(27, false, true) } else { write_case(27, false, false) } });
c06_case!(c06_r_len27, { let c: bool = kani::any(); if c { read_case(27, false, true) } else { read_case(27, false, false) } });
c06_case!(c06_w_len28, { let c: bool = kani::any(); if c { write_case(28, false, true) } else { write_case(28, false, false) } });
c06_case!(c06_r_len28, { let c: bool = kani::any(); if c { read_case(28, false, true) } else { read_case(28, false, false) } });
c06_case!(c06_w_len29, { let c: bool = kani::any(); if c { write_case(29, false, true) } else { write_case(29, false, false) } });
c06_case!(c06_r_len29, { let c: bool = kani::any(); if c { read_case(29, false, true) } else { read_case(29, false, false) } });
c06_case!(c06_w_len30, { let c: bool = kani::any(); if c { write_case(30, false, true) } else { write_case(30, false, false) } });
c06_case!(c06_r_len30, { let c: bool = kani::any(); if c { read_case(30, false, true) } else { read_case(30, false, false) } });
c06_case!(c06_w_len31, { let c: bool = kani::any(); if c { write_case(31, false, true) } else { write_case(31, false, false) } });
c06_case!(c06_r_len31, { let c: bool = kani::any(); if c { read_case(31, false, true) } else { read_case(31, false, false) } });
c06_case!(c06_w_len32, { let c: bool = kani::any(); if c { write_case(32, false, true) } else { write_case(32, false, false) } });
c06_case!(c06_r_len32, { let c: bool = kani::any(); if c { read_case(32, false, true) } else { read_case(32, false, false) } });
c06_case!(c06_w_len33, { let c: bool = kani::any(); if c { write_case(33, false, true) } else { write_case(33, false, false) } });
c06_case!(c06_r_len33, { let c: bool = kani::any(); if c { read_case(33, false, true) } else { read_case(33, false, false) } });
c06_case!(c06_w_len34, { let c: bool = kani::any(); if c { write_case(34, false, true) } else { write_case(34, false, false) } });
c06_case!(c06_r_len34, { let c: bool = kani::any(); if c { read_case(34, false, true) } else { read_case(34, false, false) } });
c06_case!(c06_w_len35, { let c: bool = kani::any(); if c { write_case(35, false, true) } else { write_case(35, false, false) } });
c06_case!(c06_r_len35, { let c: bool = kani::any(); if c { read_case(35, false, true) } else { read_case(35, false, false) } });
c06_case!(c06_w_len36, { let c: bool = kani::any(); if c { write_case(36, false, true) } else { write_case(36, false, false) } });
c06_case!(c06_r_len36, { let c: bool = kani::any(); if c { read_case(36, false, true) } else { read_case(36, false, false) } });
c06_case!(c06_w_len37, { let c: bool = kani::any(); if c { write_case(37, false, true) } else { write_case(37, false, false) } });
c06_case!(c06_r_len37, { let c: bool = kani::any(); if c { read_case(37, false, true) } else { read_case(37, false, false) } });
c06_case!(c06_w_len38, { let c: bool = kani::any(); if c { write_case(38, false, true) } else { write_case(38, false, false) } });
c06_case!(c06_r_len38, { let c: bool = kani::any(); if c { read_case(38, false, true) } else { read_case(38, false, false) } });
c06_case!(c06_w_len39, { let c: bool = kani::any(); if c { write_case(39, false, true) } else { write_case(39, false, false) } });
c06_case!(c06_r_len39, { let c: bool = kani::any(); if c { read_case(39, false, true) } else { read_case(39, false, false) } });
c06_case!(c06_w_len40, { let c: bool = kani::any(); if c { write_case(40, false, true) } else { write_case(40, false, false) } });
c06_case!(c06_r_len40, { let c: bool = kani::any(); if c { read_case(40, false, true) } else { read_case(40, false, false) } });
c06_case!(c06_w_len41, { let c: bool = kani::any(); if c { write_case(41, false, true) } else { write_case(41, false, false) } });
c06_case!(c06_r_len41, { let c: bool = kani::any(); if c { read_case(41, false, true) } else { read_case(41, false, false) } });
c06_case!(c06_w_len42, { let c: bool = kani::any(); if c { write_case(42, false, true) } else { write_case(42, false, false) } });
c06_case!(c06_r_len42, { let c: bool = kani::any(); if c { read_case(42, false, true) } else { read_case(42, false, false) } });
c06_case!(c06_w_len43, { let c: bool = kani::any(); if c { write_case(43, false, true) } else { write_case(43, false, false) } });
c06_case!(c06_r_len43, { let c: bool = kani::any(); if c { read_case(43, false, true) } else { read_case(43, false, false) } });
c06_case!(c06_w_len44, { let c: bool = kani::any(); if c { write_case(44, false, true) } else { write_case(44, false, false) } });
c06_case!(c06_r_len44, { let c: bool = kani::any(); if c { read_case(44, false, true) } else { read_case(44, false, false) } });
c06_case!(c06_w_len45, { let c: bool = kani::any(); if c { write_case(45, false, true) } else { write_case(45, false, false) } });
c06_case!(c06_r_len45, { let c: bool = kani::any(); if c { read_case(45, false, true) } else { read_case(45, false, false) } });
c06_case!(c06_w_len46, { let c: bool = kani::any(); if c { write_case(46, false, true) } else { write_case(46, false, false) } });
c06_case!(c06_r_len46, { let c: bool = kani::any(); if c { read_case(46, false, true) } else { read_case(46, false, false) } });
c06_case!(c06_w_len47, { let c: bool = kani::any(); if c { write_case(47, false, true) } else { write_case(47, false, false) } });
c06_case!(c06_r_len47, { let c: bool = kani::any(); if c { read_case(47, false, true) } else { read_case(47, false, false) } });
c06_case!(c06_w_len48, { let c: bool = kani::any(); if c { write_case(48, false, true) } else { write_case(48, false, false) } });
c06_case!(c06_r_len48, { let c: bool = kani::any(); if c { read_case(48, false, true) } else { read_case(48, false, false) } });
c06_case!(c06_w_len49, { let c: bool = kani::any(); if c { write_case(49, false, true) } else { write_case(49, false, false) } });
c06_case!(c06_r_len49, { let c: bool = kani::any(); if c { read_case(49, false, true) } else { read_case(49, false, false) } });
c06_case!(c06_w_len50, { let c: bool = kani::any(); if c { write_case(50, false, true) } else { write_case(50, false, false) } });
c06_case!(c06_r_len50, { let c: bool = kani::any(); if c { read_case(50, false, true) } else { read_case(50, false, false) } });
c06_case!(c06_w_len51, { let c: bool = kani::any(); if c { write_case(51, false, true) } else { write_case(51, false, false) } });
c06_case!(c06_r_len51, { let c: bool = kani::any(); if c { read_case(51, false, true) } else { read_case(51, false, false) } });
c06_case!(c06_w_len52, { let c: bool = kani::any(); if c { write_case(52, false, true) } else { write_case(52, false, false) } });
c06_case!(c06_r_len52, { let c: bool = kani::any(); if c { read_case(52, false, true) } else { read_case(52, false, false) } });
c06_case!(c06_w_len53, { let c: bool = kani::any(); if c { write_case(53, false, true) } else { write_case(53, false, false) } });
c06_case!(c06_r_len53, { let c: bool = kani::any(); if c { read_case(53, false, true) } else { read_case(53, false, false) } });
c06_case!(c06_w_len54, { let c: bool = kani::any(); if c { write_case(54, false, true) } else { write_case(54, false, false) } });
c06_case!(c06_r_len54, { let c: bool = kani::any(); if c { read_case(54, false, true) } else { read_case(54, false, false) } });
c06_case!(c06_w_len55, { let c: bool = kani::any(); if c { write_case(55, false, true) } else { write_case(55, false, false) } });
c06_case!(c06_r_len55, { let c: bool = kani::any(); if c { read_case(55, false, true) } else { read_case(55, false, false) } });
c06_case!(c06_w_len56, { let c: bool = kani::any(); if c { write_case(56, false, true) } else { write_case(56, false, false) } });
c06_case!(c06_r_len56, { let c: bool = kani::any(); if c { read_case(56, false, true) } else { read_case(56, false, false) } });
c06_case!(c06_w_len57, { let c: bool = kani::any(); if c { write_case(57, false, true) } else { write_case(57, false, false) } });
c06_case!(c06_r_len57, { let c: bool = kani::any(); if c { read_case(57, false, true) } else { read_case(57, false, false) } });
c06_case!(c06_w_len58, { let c: bool = kani::any(); if c { write_case(58, false, true) } else { write_case(58, false, false) } });
c06_case!(c06_r_len58, { let c: bool = kani::any(); if c { read_case(58, false, true) } else { read_case(58, false, false) } });
c06_case!(c06_w_len59, { let c: bool = kani::any(); if c { write_case(59, false, true) } else { write_case(59, false, false) } });
c06_case!(c06_r_len59, { let c: bool = kani::any(); if c { read_case(59, false, true) } else { read_case(59, false, false) } });
c06_case!(c06_w_len60, { let c: bool = kani::any(); if c { write_case(60, false, true) } else { write_case(60, false, false) } });
c06_case!(c06_r_len60, { let c: bool = kani::any(); if c { read_case(60, false, true) } else { read_case(60, false, false) } });
c06_case!(c06_w_len61, { let c: bool = kani::any(); if c { write_case(61, false, true) } else { write_case(61, false, false) } });
c06_case!(c06_r_len61, { let c: bool = kani::any(); if c { read_case(61, false, true) } else { read_case(61, false, false) } });
c06_case!(c06_w_len62, { let c: bool = kani::any(); if c { write_case(62, false, true) } else { write_case(62, false, false) } });
c06_case!(c06_r_len62, { let c: bool = kani::any(); if c { read_case(62, false, true) } else { read_case(62, false, false) } });
c06_case!(c06_w_len63, { let c: bool = kani::any(); if c { write_case(63, false, true) } else { write_case(63, false, false) } });
c06_case!(c06_r_len63, { let c: bool = kani::any(); if c { read_case(63, false, true) } else { read_case(63, false, false) } });
c06_case!(c06_w_len64, { let c: bool = kani::any(); if c { write_case(64, false, true) } else { write_case(64, false, false) } });
c06_case!(c06_r_len64, { let c: bool = kani::any(); if c { read_case(64, false, true) } else { read_case(64, false, false) } });
c06_case!(c06_w_len65, { let c: bool = kani::any(); if c { write_case(65, false, true) } else { write_case(65, false, false) } });
c06_case!(c06_r_len65, { let c: bool = kani::any(); if c { read_case(65, false, true) } else { read_case(65, false, false) } });
c06_case!(c06_w_len66, { let c: bool = kani::any(); if c { write_case(66, false, true) } else { write_case(66, false, false) } });
c06_case!(c06_r_len66, { let c: bool = kani::any(); if c { read_case(66, false, true) } else { read_case(66, false, false) } });
c06_case!(c06_w_len67, { let c: bool = kani::any(); if c { write_case(67, false, true) } else { write_case(67, false, false) } });
c06_case!(c06_r_len67, { let c: bool = kani::any(); if c { read_case(67, false, true) } else { read_case(67, false, false) } });
c06_case!(c06_w_len68, { let c: bool = kani::any(); if c { write_case(68, false, true) } else { write_case(68, false, false) } });
c06_case!(c06_r_len68, { let c: bool = kani::any(); if c { read_case(68, false, true) } else { read_case(68, false, false) } });
c06_case!(c06_w_len69, { let c: bool = kani::any(); if c { write_case(69, false, true) } else { write_case(69, false, false) } });
c06_case!(c06_r_len69, { let c: bool = kani::any(); if c { read_case(69, false, true) } else { read_case(69, false, false) } });
c06_case!(c06_w_len70, { let c: bool = kani::any(); if c { write_case(70, false, true) } else { write_case(70, false, false) } });
c06_case!(c06_r_len70, { let c: bool = kani::any(); if c { read_case(70, false, true) } else { read_case(70, false, false) } });
c06_case!(c06_w_len71, { let c: bool = kani::any(); if c { write_case(71, false, true) } else { write_case(71, false, false) } });
c06_case!(c06_r_len71, { let c: bool = kani::any(); if c { read_case(71, false, true) } else { read_case(71, false, false) } });
c06_case!(c06_w_len72, { let c: bool = kani::any(); if c { write_case(72, false, true) } else { write_case(72, false, false) } });
c06_case!(c06_r_len72, { let c: bool = kani::any(); if c { read_case(72, false, true) } else { read_case(72, false, false) } });
c06_case!(c06_w_len73, { let c: bool = kani::any(); if c { write_case(73, false, true) } else { write_case(73, false, false) } });
c06_case!(c06_r_len73, { let c: bool = kani::any(); if c { read_case(73, false, true) } else { read_case(73, false, false) } });
c06_case!(c06_w_len74, { let c: bool = kani::any(); if c { write_case(74, false, true) } else { write_case(74, false, false) } });
c06_case!(c06_r_len74, { let c: bool = kani::any(); if c { read_case(74, false, true) } else { read_case(74, false, false) } });
c06_case!(c06_w_len75, { let c: bool = kani::any(); if c { write_case(75, false, true) } else { write_case(75, false, false) } });
c06_case!(c06_r_len75, { let c: bool = kani::any(); if c { read_case(75, false, true) } else { read_case(75, false, false) } });
c06_case!(c06_w_len76, { let c: bool = kani::any(); if c { write_case(76, false, true) } else { write_case(76, false, false) } });
c06_case!(c06_r_len76, { let c: bool = kani::any(); if c { read_case(76, false, true) } else { read_case(76, false, false) } });
c06_case!(c06_w_len77, { let c: bool = kani::any(); if c { write_case(77, false, true) } else { write_case(77, false, false) } });
c06_case!(c06_r_len77, { let c: bool = kani::any(); if c { read_case(77, false, true) } else { read_case(77, false, false) } });
c06_case!(c06_w_len78, { let c: bool = kani::any(); if c { write_case(78, false, true) } else { write_case(78, false, false) } });
c06_case!(c06_r_len78, { let c: bool = kani::any(); if c { read_case(78, false, true) } else { read_case(78, false, false) } });
c06_case!(c06_w_len79, { let c: bool = kani::any(); if c { write_case(79, false, true) } else { write_case(79, false, false) } });
c06_case!(c06_r_len79, { let c: bool = kani::any(); if c { read_case(79, false, true) } else { read_case(79, false, false) } });
c06_case!(c06_w_len80, { let c: bool = kani::any(); if c { write_case(80, false, true) } else { write_case(80, false, false) } });
c06_case!(c06_r_len80, { let c: bool = kani::any(); if c { read_case(80, false, true) } else { read_case(80, false, false) } });
c06_case!(c06_w_len81, { let c: bool = kani::any(); if c { write_case(81, false, true) } else { write_case(81, false, false) } });
c06_case!(c06_r_len81, { let c: bool = kani::any(); if c { read_case(81, false, true) } else { read_case(81, false, false) } });
c06_case!(c06_w_len82, { let c: bool = kani::any(); if c { write_case(82, false, true) } else { write_case(82, false, false) } });
c06_case!(c06_r_len82, { let c: bool = kani::any(); if c { read_case(82, false, true) } else { read_case(82, false, false) } });
c06_case!(c06_w_len83, { let c: bool = kani::any(); if c { write_case(83, false, true) } else { write_case(83, false, false) } });
c06_case!(c06_r_len83, { let c: bool = kani::any(); if c { read_case(83, false, true) } else { read_case(83, false, false) } });
c06_case!(c06_w_len84, { let c: bool = kani::any(); if c { write_case(84, false, true) } else { write_case(84, false, false) } });
c06_case!(c06_r_len84, { let c: bool = kani::any(); if c { read_case(84, false, true) } else { read_case(84, false, false) } });
c06_case!(c06_w_len85, { let c: bool = kani::any(); if c { write_case(85, false, true) } else { write_case(85, false, false) } });
c06_case!(c06_r_len85, { let c: bool = kani::any(); if c { read_case(85, false, true) } else { read_case(85, false, false) } });
c06_case!(c06_w_len86, { let c: bool = kani::any(); if c { write_case(86, false, true) } else { write_case(86, false, false) } });
c06_case!(c06_r_len86, { let c: bool = kani::any(); if c { read_case(86, false, true) } else { read_case(86, false, false) } });
c06_case!(c06_w_len87, { let c: bool = kani::any(); if c { write_case(87, false, true) } else { write_case(87, false, false) } });
c06_case!(c06_r_len87, { let c: bool = kani::any(); if c { read_case(87, false, true) } else { read_case(87, false, false) } });
c06_case!(c06_w_len88, { let c: bool = kani::any(); if c { write_case(88, false, true) } else { write_case(88, false, false) } });
c06_case!(c06_r_len88, { let c: bool = kani::any(); if c { read_case(88, false, true) } else { read_case(88, false, false) } });
c06_case!(c06_w_len89, { let c: bool = kani::any(); if c { write_case(89, false, true) } else { write_case(89, false, false) } });
c06_case!(c06_r_len89, { let c: bool = kani::any(); if c { read_case(89, false, true) } else { read_case(89, false, false) } });
c06_case!(c06_w_len90, { let c: bool = kani::any(); if c { write_case(90, false, true) } else { write_case(90, false, false) } });
c06_case!(c06_r_len90, { let c: bool = kani::any(); if c { read_case(90, false, true) } else { read_case(90, false, false) } });
c06_case!(c06_w_len91, { let c: bool = kani::any(); if c { write_case(91, false, true) } else { write_case(91, false, false) } });
c06_case!(c06_r_len91, { let c: bool = kani::any(); if c { read_case(91, false, true) } else { read_case(91, false, false) } });
c06_case!(c06_w_len92, { let c: bool = kani::any(); if c { write_case(92, false, true) } else { write_case(92, false, false) } });
c06_case!(c06_r_len92, { let c: bool = kani::any(); if c { read_case(92, false, true) } else { read_case(92, false, false) } });
c06_case!(c06_w_len93, { let c: bool = kani::any(); if c { write_case(93, false, true) } else { write_case(93, false, false) } });
c06_case!(c06_r_len93, { let c: bool = kani::any(); if c { read_case(93, false, true) } else { read_case(93, false, false) } });
c06_case!(c06_w_len94, { let c: bool = kani::any(); if c { write_case(94, false, true) } else { write_case(94, false, false) } });
c06_case!(c06_r_len94, { let c: bool = kani::any(); if c { read_case(94, false, true) } else { read_case(94, false, false) } });
c06_case!(c06_w_len95, { let c: bool = kani::any(); if c { write_case(95, false, true) } else { write_case(95, false, false) } });
c06_case!(c06_r_len95, { let c: bool = kani::any(); if c { read_case(95, false, true) } else { read_case(95, false, false) } });
c06_case!(c06_w_len96, { let c: bool = kani::any(); if c { write_case(96, false, true) } else { write_case(96, false, false) } });
c06_case!(c06_r_len96, { let c: bool = kani::any(); if c { read_case(96, false, true) } else { read_case(96, false, false) } });
c06_case!(c06_w_rc_len0, { let c: bool = kani::any(); if c { write_case(0, true, true) } else { write_case(0, true, false) } });
c06_case!(c06_r_rc_len0, { let c: bool = kani::any(); if c { read_case(0, true, true) } else { read_case(0, true, false) } });
c06_case!(c06_w_rc_len1, { let c: bool = kani::any(); if c { write_case(1, true, true) } else { write_case(1, true, false) } });
c06_case!(c06_r_rc_len1, { let c: bool = kani::any(); if c { read_case(1, true, true) } else { read_case(1, true, false) } });
c06_case!(c06_w_rc_len26, { let c: bool = kani::any(); if c { write_case(26, true, true) } else { write_case(26, true, false) } });
c06_case!(c06_r_rc_len26, { let c: bool = kani::any(); if c { read_case(26, true, true) } else { read_case(26, true, false) } });
c06_case!(c06_w_rc_len27, { let c: bool = kani::any(); if c { write_case(27, true, true) } else { write_case(27, true, false) } });
c06_case!(c06_r_rc_len27, { let c: bool = kani::any(); if c { read_case(27, true, true) } else { read_case(27, true, false) } });
c06_case!(c06_w_rc_len48, { let c: bool = kani::any(); if c { write_case(48, true, true) } else { write_case(48, true, false) } });
c06_case!(c06_r_rc_len48, { let c: bool = kani::any(); if c { read_case(48, true, true) } else { read_case(48, true, false) } });
c06_case!(c06_w_rc_len49, { let c: bool = kani::any(); if c { write_case(49, true, true) } else { write_case(49, true, false) } });
c06_case!(c06_r_rc_len49, { let c: bool = kani::any(); if c { read_case(49, true, true) } else { read_case(49, true, false) } });
c06_case!(c06_w_rc_len70, { let c: bool = kani::any(); if c { write_case(70, true, true) } else { write_case(70, true, false) } });
c06_case!(c06_r_rc_len70, { let c: bool = kani::any(); if c { read_case(70, true, true) } else { read_case(70, true, false) } });
c06_case!(c06_w_rc_len71, { let c: bool = kani::any(); if c { write_case(71, true, true) } else { write_case(71, true, false) } });
c06_case!(c06_r_rc_len71, { let c: bool = kani::any(); if c { read_case(71, true, true) } else { read_case(71, true, false) } });
c06_case!(c06_w_rc_len92, { let c: bool = kani::any(); if c { write_case(92, true, true) } else { write_case(92, true, false) } });
c06_case!(c06_r_rc_len92, { let c: bool = kani::any(); if c { read_case(92, true, true) } else { read_case(92, true, false) } });
c06_case!(c06_s3_replace_0_to_30, { let c: bool = kani::any(); if c { replace_case(0, 30, false, true) } else { replace_case(0, 30, false, false) } });
c06_case!(c06_s3_replace_30_to_0, { let c: bool = kani::any(); if c { replace_case(30, 0, false, true) } else { replace_case(30, 0, false, false) } });
c06_case!(c06_s3_replace_10_to_20, { let c: bool = kani::any(); if c { replace_case(10, 20, false, true) } else { replace_case(10, 20, false, false) } });
c06_case!(c06_s3_replace_1_to_30, { let c: bool = kani::any(); if c { replace_case(1, 30, false, true) } else { replace_case(1, 30, false, false) } });
c06_case!(c06_s3_replace_31_to_53, { let c: bool = kani::any(); if c { replace_case(31, 53, false, true) } else { replace_case(31, 53, false, false) } });
c06_case!(c06_s3_replace_53_to_31, { let c: bool = kani::any(); if c { replace_case(53, 31, false, true) } else { replace_case(53, 31, false, false) } });
c06_case!(c06_s3_replace_52_to_75, { let c: bool = kani::any(); if c { replace_case(52, 75, false, true) } else { replace_case(52, 75, false, false) } });
c06_case!(c06_s3_replace_75_to_31, { let c: bool = kani::any(); if c { replace_case(75, 31, false, true) } else { replace_case(75, 31, false, false) } });
c06_case!(c06_s3_replace_74_to_75, { let c: bool = kani::any(); if c { replace_case(74, 75, false, true) } else { replace_case(74, 75, false, false) } });
c06_case!(c06_s3_replace_75_to_74, { let c: bool = kani::any(); if c { replace_case(75, 74, false, true) } else { replace_case(75, 74, false, false) } });
c06_case!(c06_s3_replace_96_to_31, { let c: bool = kani::any(); if c { replace_case(96, 31, false, true) } else { replace_case(96, 31, false, false) } });
c06_case!(c06_s3_replace_31_to_96, { let c: bool = kani::any(); if c { replace_case(31, 96, false, true) } else { replace_case(31, 96, false, false) } });
c06_case!(c06_s3_replace_53_to_53, { let c: bool = kani::any(); if c { replace_case(53, 53, false, true) } else { replace_case(53, 53, false, false) } });
c06_case!(c06_s3_replace_rc_0_to_26, { let c: bool = kani::any(); if c { replace_case(0, 26, true, true) } else { replace_case(0, 26, true, false) } });
c06_case!(c06_s3_replace_rc_26_to_0, { let c: bool = kani::any(); if c { replace_case(26, 0, true, true) } else { replace_case(26, 0, true, false) } });
c06_case!(c06_s3_replace_rc_27_to_49, { let c: bool = kani::any(); if c { replace_case(27, 49, true, true) } else { replace_case(27, 49, true, false) } });
c06_case!(c06_s3_replace_rc_49_to_27, { let c: bool = kani::any(); if c { replace_case(49, 27, true, true) } else { replace_case(49, 27, true, false) } });
c06_case!(c06_s3_replace_rc_71_to_27, { let c: bool = kani::any(); if c { replace_case(71, 27, true, true) } else { replace_case(71, 27, true, false) } });

// =====================================================================================
// C06.S1a: tier table facts — value_size per real tier; a size field can never alias a marker
// =====================================================================================
#[kani::proof]
#[kani::unwind(260)]
fn c06_s1a_value_size_per_tier() {
	let sizes = &crate::column::verif_kani::sizes();
	let rc: bool = kani::any();
	let partial: bool = kani::any();
	let key = if partial { TableKey::Partial([0u8; 32]) } else { TableKey::NoHash };
	let mut i = 0;
	let mut prev = 0u16;
	while i < sizes.len() {
		let e = sizes[i];
		assert!(e > prev, "C06.S1 tier sizes strictly increase");
		assert!(e as usize >= MIN_ENTRY_SIZE && e as usize <= MAX_ENTRY_SIZE, "C06.S1 tier size in range");
		let t = ValueTable { id: TableId::new(0, i as u8), entry_size: e, file: vf::new_file(TableId::new(0, 0), 0), filled: AtomicU64::new(1), written: AtomicU64::new(1),
			last_removed: AtomicU64::new(0), dirty_header: AtomicBool::new(false), needs_free_entries: false, free_entries: None, multipart: false, ref_counted: rc,
			db_version: crate::options::CURRENT_VERSION };
		let want = e as i32 - 2 - if rc { 4 } else { 0 } - if partial { 26 } else { 0 };
		let vs = t.value_size(&key);
		if want >= 0 { assert!(vs == Some(want as u16), "C06.S1 value_size = entry - size field - rc - key"); } else { assert!(vs.is_none(), "C06.S1 key does not fit"); }
		// the largest size field this tier can write never aliases a marker (0xfffd..0xffff, 0x7ffd compressed head)
		assert!((e - 2) < 0x7ffd, "C06.S1 size field never aliases a multipart / tombstone marker");
		prev = e;
		std::mem::forget(t);
		i += 1;
	}
	assert!(sizes.len() == SIZE_TIERS - 1, "C06.S1 255 fixed tiers + the multipart tier");
}


// =====================================================================================
// C01.G1: value-table ids map injectively into the log overlay array (a collision would let two tables share overlay entries)
// =====================================================================================
#[kani::proof]
fn c01_g1_value_table_log_index() {
	let (c1, t1, c2, t2): (u8, u8, u8, u8) = (kani::any(), kani::any(), kani::any(), kani::any());
	let a = TableId::new(c1, t1);
	let b = TableId::new(c2, t2);
	assert!(a.col() == c1 && a.size_tier() == t1, "C01.G1 table id packs column and tier");
	assert!(TableId::from_log_index(a.log_index()) == a, "C01.G1 value table log index round trip");
	if a.log_index() == b.log_index() { assert!(a == b, "C01.G1 value table log index injective"); }
	let n: usize = kani::any();
	kani::assume(n >= 1 && n <= 256 && (c1 as usize) < n);
	assert!(a.log_index() < TableId::max_log_tables(n), "C01.G1 log index within the overlay array of an n-column database");
	assert!(TableId::from_u16(a.as_u16()) == a, "C01.G1 u16 round trip");
}

// =====================================================================================
// C14.T0: the in-memory free stack built at open equals the on-disk free list (top of stack = list head)
// =====================================================================================
crate::verif_tbl! {
#[kani::proof]
#[kani::unwind(40)]
fn c14_t0_init_free_stack_matches_disk_list() {
	let disk: [u8; TE * TN] = kani::any();
	let filled: u64 = kani::any();
	let last_removed: u64 = kani::any();
	let (list, n) = assume_free_list(&disk, filled, last_removed);
	kani::assume(n <= 3);
	let mut t = mk(TableId::new(0, 0), TE as u16, false, false, 8);
	t.needs_free_entries = true;
	preload(&t, &disk);
	t.filled.store(filled, Ordering::Relaxed);
	t.last_removed.store(last_removed, Ordering::Relaxed);
	t.init_table_data().unwrap();
	let stack = free_stack_of(&t);
	assert!(stack.len() == n, "C14.T0 free stack has one entry per free slot");
	if n > 0 {
		let j: usize = kani::any();
		kani::assume(j < n);
		assert!(stack[n - 1 - j] == list[j], "C14.T0 free stack mirrors the on-disk list (head on top)");
	}
	// and claiming pops in list order
	if n >= 1 {
		let got = t.claim_entries(1).unwrap();
		assert!(got.len() == 1 && got[0] == list[0], "C14.T0 claim hands out the list head");
		assert!(t.last_removed.load(Ordering::Relaxed) == if n >= 2 { list[1] } else { 0 }, "C14.T0 claim advances the head to its successor");
		std::mem::forget(got);
	}
	kani::cover!(n == 3);
	kani::cover!(n == 0);
	std::mem::forget(stack);
	std::mem::forget(t);
}
}

// =====================================================================================
// C14.T1c: ValueTable::claim_entries (multitree columns claim node slots at commit time, before the record is written):
// from any in-memory free stack of n entries (distinct, below the fill mark, head = top of the stack) it hands out the
// stack entries from the top, then fresh slots at the fill mark; head, fill mark and stack follow; the header is marked
// dirty whenever head or fill mark changed (otherwise the on-disk header keeps pointing at a slot that is now in use).
// =====================================================================================
fn claim_case(n: usize, num: usize) {
	let filled: u64 = kani::any();
	kani::assume(filled >= 1 && filled <= 6);
	let s: [u64; 2] = kani::any();
	let mut stack = Vec::with_capacity(4);
	let mut i = 0;
	while i < 2 { if i < n { kani::assume(s[i] >= 1 && s[i] < filled); stack.push(s[i]); } i += 1; }
	if n == 2 { kani::assume(s[0] != s[1]); }
	let t = mk_mt(TableId::new(0, 0), 32, false, 8, stack);
	t.filled.store(filled, Ordering::Relaxed);
	t.last_removed.store(if n > 0 { s[n - 1] } else { 0 }, Ordering::Relaxed);
	let got = t.claim_entries(num).unwrap();
	assert!(got.len() == num, "C14.T1c claim returns the requested number of slots");
	let popped = if num < n { num } else { n };
	let mut k = 0;
	while k < 3 {
		if k < num {
			let want = if k < popped { s[n - 1 - k] } else { filled + (k - popped) as u64 };
			assert!(got[k] == want, "C14.T1c free slots are handed out from the head of the list, then fresh slots at the fill mark");
			assert!(got[k] != 0, "C14.T1c the header slot is never handed out");
		}
		k += 1;
	}
	assert!(t.filled.load(Ordering::Relaxed) == filled + (num - popped) as u64, "C14.T1c the fill mark advances by the number of fresh slots");
	assert!(t.last_removed.load(Ordering::Relaxed) == if n > popped { s[n - 1 - popped] } else { 0 }, "C14.T1c the head of the free list is the first slot not handed out");
	let left = free_stack_of(&t);
	assert!(left.len() == n - popped, "C14.T1c handed-out slots leave the in-memory free stack");
	if n - popped == 1 { assert!(left[0] == s[0], "C14.T1c the rest of the stack is untouched"); }
	if num > 0 { assert!(t.dirty_header.load(Ordering::Relaxed), "C14.T1c header marked dirty when head or fill mark changed"); }
	kani::cover!(num > 0);
	std::mem::forget(got); std::mem::forget(left); std::mem::forget(t);
}
macro_rules! c14_t1c {
	($name:ident, $n:expr, $num:expr) => {
		crate::verif_tbl! {
			#[kani::proof]
			#[kani::unwind(8)]
			fn $name() { claim_case($n, $num) }
		}
	};
}
c14_t1c!(c14_t1c_claim_from_list_2_take_1, 2, 1);
c14_t1c!(c14_t1c_claim_from_list_2_take_3, 2, 3);
c14_t1c!(c14_t1c_claim_from_list_1_take_1, 1, 1);
c14_t1c!(c14_t1c_claim_from_empty_take_2, 0, 2);

// =====================================================================================
// C07.R4 / C14.T2c: the last dereference of a ref-counted value releases its *whole* storage: every part of the chain
// becomes a tombstone and joins the free list exactly once (ValueTable::write_dec_ref -> change_ref -> write_remove_plan).
// Pre-state: the specified layout of a value of `len` bytes with counter 1 at scattered slots of a ref-counted table.
// `ValueTable::change_ref` is by contract here ("counter was 1: nothing left, returns false" — decided for every counter
// value by C07.R1; with the real function on a multi-part head the harness did not finish in 15 minutes): what is decided
// is that write_dec_ref then releases the whole chain, not just the slot it was given.
// =====================================================================================
pub static mut CR_CALLS: usize = 0;
pub fn stub_change_ref_exhausted(_t: &ValueTable, index: u64, delta: i32, _l: &mut crate::log::LogWriter) -> Result<bool> {
	assert!(index == 4 && delta == -1, "C07.R4 the dereference is applied to the value's head slot");
	unsafe { CR_CALLS += 1; }
	Ok(false)
}
fn dec_ref_frees_case(len: usize, compressed: bool) {
	let value: [u8; CMAX] = kani::any();
	let n = parts_needed(len + 4, CE);
	let t = layout_table(true, n > 1);
	t.filled.store(6, Ordering::Relaxed);
	let overlays = vl::new_overlays();
	let mut w = crate::log::LogWriter::new(&overlays, 1);
	let slots = [4u64, 2, 5, 3];
	let (ents, lens, _) = spec_layout(&value, len, Some(1), compressed, &slots);
	preload_layout(&t, &mut w, false, &ents, &lens, n, &slots);
	let writes0 = unsafe { vl::OV_WRITES };
	unsafe { CR_CALLS = 0; }
	let remains = t.write_dec_ref(4, &mut w).unwrap();
	assert!(!remains && unsafe { CR_CALLS } == 1, "C07.R4 the last dereference reports the value gone");
	assert!(unsafe { vl::OV_WRITES } == writes0 + n, "C14.T2c exactly the parts of the value are rewritten");
	let mut cur = t.last_removed.load(Ordering::Relaxed);
	let mut seen = [false; 8];
	let mut cnt = 0;
	let mut hops = 0;
	while hops < CP + 1 {
		if cur != 0 {
			assert!(cur < 6 && !seen[cur as usize], "C14.T2c free list in range, no slot twice");
			seen[cur as usize] = true;
			let mut b = [0u8; 10];
			assert!(vl::rec_get(&w, t.id, cur, &mut b) && b[0] == 0xff && b[1] == 0xff, "C14.T2c freed part is a tombstone");
			cur = le64(&b, 2);
			cnt += 1;
		}
		hops += 1;
	}
	assert!(cur == 0 && cnt == n, "C14.T2c every part of a value whose count reached zero is on the free list exactly once");
	let mut p = 0;
	while p < CP { if p < n { assert!(seen[slots[p] as usize], "C14.T2c each part was released"); } p += 1; }
	kani::cover!(cnt == n && n >= 1);
	std::mem::forget(w); std::mem::forget(t); std::mem::forget(overlays);
}
macro_rules! c07_r4 {
	($name:ident, $body:expr) => {
		crate::verif_tbl! {
			#[kani::proof]
			#[kani::unwind(102)]
			#[kani::stub(crate::table::ValueTable::change_ref, stub_change_ref_exhausted)]
			fn $name() { $body }
		}
	};
}
c07_r4!(c07_r4_last_dereference_frees_chain_len27, { let c: bool = kani::any(); if c { dec_ref_frees_case(27, true) } else { dec_ref_frees_case(27, false) } });
c07_r4!(c07_r4_last_dereference_frees_chain_len49, { let c: bool = kani::any(); if c { dec_ref_frees_case(49, true) } else { dec_ref_frees_case(49, false) } });
c07_r4!(c07_r4_last_dereference_frees_chain_len71, { dec_ref_frees_case(71, false) });
c07_r4!(c07_r4_last_dereference_frees_single_len8, { dec_ref_frees_case(8, false) });
