//! Table-file environment (DESIGN.md 3.2): under Kani `TableFile::{read_at, slice_at, write_at}` are replaced by
//! accesses to static byte arrays (one per size tier used by a harness); under native replay (`--cfg verif_native`)
//! the same harness bodies run on a real anonymous memory map through the unmodified TableFile methods.
#![allow(dead_code, unused_imports, static_mut_refs)]
use super::*;

pub const NFILES: usize = 3;
pub const FILE_BYTES: usize = 512; // e.g. 8 slots of 64 bytes or 16 slots of 32 bytes
/// A file is kept as rows of 64 bytes: CBMC tracks arrays of up to 64 elements element by element (field
/// sensitivity); a flat 512-byte array is all-or-nothing — after the first symbolic byte is written no byte of it is a
/// constant for symbolic execution any more, and every marker / next pointer read back makes chain walks unwind to
/// the bound (probed). Accesses never straddle a row (entry sizes 32 / 64, aligned).
pub const ROW: usize = 64;
pub const ROWS: usize = FILE_BYTES / ROW;
pub static FILES: [parking_lot::RwLock<[[u8; ROW]; ROWS]>; NFILES] = [
	parking_lot::const_rwlock([[0u8; ROW]; ROWS]),
	parking_lot::const_rwlock([[0u8; ROW]; ROWS]),
	parking_lot::const_rwlock([[0u8; ROW]; ROWS]),
];
/// Number of write_at calls (all files), for "nothing was written" obligations.
pub static mut WRITES: usize = 0;
/// Event log for call-order obligations (C12): 1 = write_at, 2 = flush; with the file number.
pub const EV_MAX: usize = 16;
pub static mut EVENTS: [(u8, u8); EV_MAX] = [(0, 0); EV_MAX];
pub static mut EV_N: usize = 0;

pub fn event(kind: u8, file: u8) {
	unsafe {
		if EV_N < EV_MAX { EVENTS[EV_N] = (kind, file); }
		EV_N += 1;
	}
}

#[cfg(not(verif_native))]
pub fn new_file(id: TableId, capacity: u64) -> TableFile {
	TableFile { map: RwLock::new(None), path: std::path::PathBuf::new(), capacity: AtomicU64::new(capacity), id }
}

#[cfg(verif_native)]
pub fn new_file(id: TableId, capacity: u64) -> TableFile {
	let map = memmap2::MmapMut::map_anon(FILE_BYTES).unwrap();
	let f = std::fs::File::open("/dev/null").unwrap();
	TableFile { map: RwLock::new(Some((map, f))), path: std::path::PathBuf::new(), capacity: AtomicU64::new(capacity), id }
}

fn fno(f: &TableFile) -> usize {
	let n = f.id.size_tier() as usize;
	assert!(n < NFILES, "harness bound: file number");
	n
}

pub fn stub_read_at(f: &TableFile, buf: &mut [u8], offset: u64) -> Result<()> {
	let offset = offset as usize;
	let g = FILES[fno(f)].read();
	let n = buf.len();
	assert!(offset + n <= FILE_BYTES, "read beyond the mapped file");
	let mut k = 0;
	while k < n { buf[k] = g[(offset + k) / ROW][(offset + k) % ROW]; k += 1; }
	Ok(())
}

pub fn stub_slice_at(f: &TableFile, offset: u64, len: usize) -> MappedBytesGuard<'static> {
	let offset = offset as usize;
	assert!(offset + len <= FILE_BYTES, "slice beyond the mapped file");
	assert!(offset % ROW + len <= ROW, "harness bound: a slice stays inside one 64-byte row");
	parking_lot::RwLockReadGuard::map(FILES[fno(f)].read(), |m| &m[offset / ROW][offset % ROW..offset % ROW + len])
}

pub fn stub_write_at(f: &TableFile, buf: &[u8], offset: u64) -> Result<()> {
	let offset = offset as usize;
	let n = buf.len();
	assert!(offset + n <= FILE_BYTES, "write beyond the mapped file");
	let mut g = FILES[fno(f)].write();
	let mut k = 0;
	while k < n { g[(offset + k) / ROW][(offset + k) % ROW] = buf[k]; k += 1; }
	unsafe { WRITES += 1; }
	event(1, fno(f) as u8);
	Ok(())
}

pub fn stub_flush(f: &TableFile) -> Result<()> {
	event(2, fno(f) as u8);
	crate::log::verif_kani::fev(8, fno(f) as i32);
	crate::log::verif_kani::race_hook();
	Ok(())
}

pub fn stub_grow(_f: &TableFile, _entry_size: u16) -> Result<()> {
	panic!("harness bound: table file growth is outside the claim")
}

/// Harness-side access to the "disk": preload and inspect (same effect under Kani and natively).
pub fn disk_put(f: &TableFile, offset: usize, data: &[u8]) {
	#[cfg(not(verif_native))]
	{
		let mut g = FILES[fno(f)].write();
		let mut k = 0;
		while k < data.len() { g[(offset + k) / ROW][(offset + k) % ROW] = data[k]; k += 1; }
	}
	#[cfg(verif_native)]
	{
		f.write_at(data, offset as u64).unwrap();
	}
}

pub fn disk_get(f: &TableFile, offset: usize) -> u8 {
	#[cfg(not(verif_native))]
	{
		FILES[fno(f)].read()[offset / ROW][offset % ROW]
	}
	#[cfg(verif_native)]
	{
		let mut b = [0u8; 1];
		f.read_at(&mut b, offset as u64).unwrap();
		b[0]
	}
}


// =====================================================================================
// C12.F: TableFile::flush (the real function; everywhere else it is a stub) makes the whole mapping durable:
// one synchronous msync covering [0, map length), whatever the table's capacity counter says, and a failing msync is
// reported. The memmap2 entry points are replaced by recorders (msync is FFI); the map is fabricated over a static
// buffer (MmapMut is {ptr, len}; the harness asserts the layout through len()).
// =====================================================================================
pub static mut MS_N: usize = 0;
pub static mut MS_SYNC: bool = false;
pub static mut MS_OFF: usize = 0;
pub static mut MS_LEN: usize = 0;
pub static mut MS_FAIL: bool = false;
fn ms(sync: bool, off: usize, len: usize) -> std::io::Result<()> {
	unsafe {
		MS_N += 1; MS_SYNC = sync; MS_OFF = off; MS_LEN = len;
		if MS_FAIL { Err(std::io::Error::from(std::io::ErrorKind::Other)) } else { Ok(()) }
	}
}
pub fn stub_mm_flush(m: &memmap2::MmapMut) -> std::io::Result<()> { ms(true, 0, m.len()) }
pub fn stub_mm_flush_async(m: &memmap2::MmapMut) -> std::io::Result<()> { ms(false, 0, m.len()) }
pub fn stub_mm_flush_range(_m: &memmap2::MmapMut, offset: usize, len: usize) -> std::io::Result<()> { ms(true, offset, len) }
pub fn stub_mm_flush_async_range(_m: &memmap2::MmapMut, offset: usize, len: usize) -> std::io::Result<()> { ms(false, offset, len) }
#[repr(C)]
struct RawMap { ptr: *mut u8, len: usize }
pub static mut MAP_BUF: [u8; 64] = [0u8; 64];

crate::verif_env! {
#[kani::proof]
#[kani::unwind(4)]
#[kani::stub(memmap2::MmapMut::flush, stub_mm_flush)]
#[kani::stub(memmap2::MmapMut::flush_async, stub_mm_flush_async)]
#[kani::stub(memmap2::MmapMut::flush_range, stub_mm_flush_range)]
#[kani::stub(memmap2::MmapMut::flush_async_range, stub_mm_flush_async_range)]
#[kani::stub(<std::os::fd::OwnedFd as std::ops::Drop>::drop, crate::verif_common::fd_drop_noop)]
fn c12_f1_table_flush_syncs_whole_map() {
	let len: usize = kani::any();
	kani::assume(len >= 1 && len <= 64);
	let map: memmap2::MmapMut = unsafe { std::mem::transmute(RawMap { ptr: MAP_BUF.as_mut_ptr(), len }) };
	assert!(map.len() == len, "harness: MmapMut layout is {{ptr, len}}");
	let cap: u64 = kani::any();
	let present: bool = kani::any();
	unsafe { MS_N = 0; MS_FAIL = kani::any(); }
	let f = TableFile { map: RwLock::new(if present { Some((map, crate::verif_common::raw_file(7))) } else { std::mem::forget(map); None }),
		path: std::path::PathBuf::new(), capacity: AtomicU64::new(cap), id: TableId::new(0, 0) };
	let r = f.flush();
	unsafe {
		if present {
			assert!(MS_N == 1 && MS_SYNC, "C12.F a table flush is one synchronous msync");
			assert!(MS_OFF == 0 && MS_LEN >= len, "C12.F the msync covers every byte of the table file (in this harness the whole mapping is file-backed; the capacity counter counts entries, not bytes)");
			assert!(r.is_err() == MS_FAIL, "C12.F a failing msync is reported to the caller");
		} else {
			assert!(MS_N == 0 && r.is_ok(), "C12.F a table without file has nothing to flush");
		}
	}
	kani::cover!(present && unsafe { MS_FAIL });
	kani::cover!(present && !unsafe { MS_FAIL } && cap < 2);
	std::mem::forget(r); std::mem::forget(f);
}
}
