//! Harnesses for src/btree/iter.rs: C04.M (BTreeIterator — the merge of the commit-overlay cursor and the tree cursor,
//! direction changes, look-ahead item, re-seek when a new record was enacted) and C04.C (record-id bookkeeping).
//!
//! Contracts (each stated here, decided elsewhere or trusted as listed in the evidence):
//! * tree cursor `BTreeIterState::{seek, next}` = cursor over the in-order key list of the tree:
//!   seek(Include k) -> Seeked(i) if k is the i-th key, else Before(i) with i = number of keys < k; seek(Exclude k) -> At(i) / Before(i);
//!   seek(Last) -> Before(n); next(Forward): Seeked(i) -> key i; At(i) -> key i+1; Before(i) -> key i; next(Backward): Seeked(i) -> key i;
//!   At(i) -> key i-1; Before(i) -> key i-1; running off either end empties the cursor and returns None; an empty cursor starts
//!   at Before(0) (forward) or Before(n) (backward). This is what the real code does on a single leaf (src/btree/iter.rs
//!   BTreeIterState::next, Node::seek); C04.S decides that the real cursor refines it on a two-level tree.
//! * overlay cursor `CommitOverlay::{btree_next, btree_prev}` = first / last overlay key in the range named by LastKey
//!   (the BTreeMap range queries of std are not executed: one insert plus two range queries did not finish in 15 minutes).
#![allow(dead_code, unused_imports, static_mut_refs)]
use super::*;
use crate::db::RcValue;
use crate::btree::node::{Child, Separator, SeparatorInner};

pub const BN: usize = 3;
pub static mut BK_N: usize = 0;
pub static mut BK: [u8; BN] = [0; BN];
// cursor: 0 empty, 1 Seeked(i), 2 At(i), 3 Before(i)
pub static mut CUR_KIND: u8 = 0;
pub static mut CUR_I: usize = 0;
pub static mut SEEKS: usize = 0;
pub static mut OPENS: usize = 0;
pub const ON: usize = 2;
pub static mut OV_N: usize = 0;
pub static mut OV_K: [u8; ON] = [0; ON];
pub static mut OV_LIVE: [bool; ON] = [false; ON];
pub static mut OV_KRC: [Option<RcValue>; ON] = [None, None];
pub static mut OV_VRC: [Option<RcValue>; ON] = [None, None];

pub fn stub_state_seek<Q: LogQuery>(st: &mut BTreeIterState, seek_to: SeekTo, _btree: &mut BTree, _col: &BTreeTable, _log: &Q) -> Result<()> {
	unsafe {
		SEEKS += 1;
		match seek_to {
			SeekTo::Last => { CUR_KIND = 3; CUR_I = BK_N; },
			SeekTo::Include(k) | SeekTo::Exclude(k) => {
				// harness keys are one byte; the empty key (seek_to_first) sorts before everything
				let mut lt = 0; let mut found = BN;
				let mut j = 0;
				while j < BN { if j < BK_N { if k.len() > 0 && BK[j] < k[0] { lt += 1; } if k.len() == 1 && BK[j] == k[0] { found = j; } } j += 1; }
				if found < BN { CUR_KIND = if matches!(seek_to, SeekTo::Include(_)) { 1 } else { 2 }; CUR_I = found; } else { CUR_KIND = 3; CUR_I = lt; }
			},
		}
	}
	Ok(())
}

pub fn stub_state_next<Q: LogQuery>(st: &mut BTreeIterState, _btree: &mut BTree, _col: &BTreeTable, _log: &Q, direction: IterDirection) -> Result<Option<(Vec<u8>, Value)>> {
	unsafe {
		if CUR_KIND == 0 { CUR_KIND = 3; CUR_I = if direction == IterDirection::Forward { 0 } else { BK_N }; }
		let n = BK_N;
		// index of the key to return, or BN for "ran off the end"
		let at = match (CUR_KIND, direction) {
			(1, _) => CUR_I,
			(2, IterDirection::Forward) => if CUR_I + 1 < n { CUR_I + 1 } else { BN },
			(2, IterDirection::Backward) => if CUR_I > 0 { CUR_I - 1 } else { BN },
			(_, IterDirection::Forward) => if CUR_I < n { CUR_I } else { BN },
			(_, IterDirection::Backward) => if CUR_I > 0 { CUR_I - 1 } else { BN },
		};
		if at == BN { CUR_KIND = 0; return Ok(None) }
		CUR_KIND = 2; CUR_I = at;
		let mut k = Vec::with_capacity(1); k.push(BK[at]);
		let mut v = Vec::with_capacity(1); v.push(BK[at].wrapping_add(1));
		Ok(Some((k, v)))
	}
}

pub fn stub_open<Q: LogQuery>(_values: TablesRef, _log: &Q, record_id: u64) -> Result<BTree> {
	unsafe { OPENS += 1; }
	Ok(BTree::new(None, 0, record_id))
}

fn ov_pick(lk: &LastKey, forward: bool) -> Option<(RcValue, Option<RcValue>)> {
	unsafe {
		let mut best = ON;
		let mut j = 0;
		while j < ON {
			if j < OV_N {
				let x = OV_K[j];
				let ok = match lk {
					LastKey::Start => forward,
					LastKey::End => !forward,
					LastKey::At(k) => if forward { k.len() == 0 || x > k[0] } else { k.len() > 0 && x < k[0] },
					LastKey::Seeked(k) => if forward { k.len() == 0 || x >= k[0] } else { k.len() > 0 && x <= k[0] },
				};
				if ok && (best == ON || (forward && x < OV_K[best]) || (!forward && x > OV_K[best])) { best = j; }
			}
			j += 1;
		}
		if best == ON { return None }
		let v = if OV_LIVE[best] { OV_VRC[best].clone() } else { None };
		Some((OV_KRC[best].clone().unwrap(), v))
	}
}
pub fn stub_ov_next(_o: &CommitOverlay, lk: &LastKey) -> Option<(RcValue, Option<RcValue>)> { ov_pick(lk, true) }
pub fn stub_ov_prev(_o: &CommitOverlay, lk: &LastKey) -> Option<(RcValue, Option<RcValue>)> { ov_pick(lk, false) }

// ---- specification: the merged view and the position the API contract talks about
#[derive(Clone, Copy, PartialEq)]
enum Pos { Start, End, At(u8), Seeked(u8) }

/// value of key x in the merged view, None if absent
fn view(x: u8) -> Option<u8> {
	unsafe {
		let mut j = 0;
		while j < ON { if j < OV_N && OV_K[j] == x { return if OV_LIVE[j] { Some(x.wrapping_add(100)) } else { None } } j += 1; }
		let mut j = 0;
		while j < BN { if j < BK_N && BK[j] == x { return Some(x.wrapping_add(1)) } j += 1; }
		None
	}
}
fn spec_step(p: Pos, forward: bool) -> Option<(u8, u8)> {
	// candidates: every key of the backend and of the overlay
	let mut best: Option<(u8, u8)> = None;
	let mut c = 0;
	while c < BN + ON {
		let x = unsafe { if c < BN { if c < BK_N { Some(BK[c]) } else { None } } else { if c - BN < OV_N { Some(OV_K[c - BN]) } else { None } } };
		if let Some(x) = x {
			if let Some(v) = view(x) {
				let ok = match p {
					Pos::Start => forward, Pos::End => !forward,
					Pos::At(k) => if forward { x > k } else { x < k },
					Pos::Seeked(k) => if forward { x >= k } else { x <= k },
				};
				if ok && (best.is_none() || (forward && x < best.unwrap().0) || (!forward && x > best.unwrap().0)) { best = Some((x, v)); }
			}
		}
		c += 1;
	}
	best
}

fn setup(nb: usize, no: usize) {
	unsafe {
		BK_N = nb; BK = kani::any(); OV_N = no; OV_K = kani::any(); OV_LIVE = kani::any();
		let mut j = 1;
		while j < BN { if j < nb { kani::assume(BK[j - 1] < BK[j]); } j += 1; }
		if no == 2 { kani::assume(OV_K[0] != OV_K[1]); }
		crate::db::verif_kani::rc_reset();
		let mut j = 0;
		while j < ON { if j < no { OV_KRC[j] = Some(crate::db::verif_kani::rc_byte(OV_K[j])); OV_VRC[j] = Some(crate::db::verif_kani::rc_byte(OV_K[j].wrapping_add(100))); } j += 1; }
		CUR_KIND = 0; CUR_I = 0; SEEKS = 0; OPENS = 0;
	}
}

/// ops: 0 next, 1 prev, 2 seek(k) (k symbolic), 3 seek_to_first, 4 seek_to_last. `bump`: before which call (1-based; 0 never)
/// a new record is enacted (the log's record id moves on; the tree content stays the same).
fn merge_case(nb: usize, no: usize, ops: [u8; 4], nops: usize, bump: usize) {
	setup(nb, no);
	let table = BTreeTable { id: 0, tables: RwLock::new(Vec::new()), ref_counted: false,
		compression: crate::compress::Compress::new(crate::compress::CompressionType::NoCompression, u32::MAX) };
	let log = crate::log::verif_kani::overlays_with_record(7);
	let co = crate::db::verif_kani::commit_overlays(1);
	let mut it = BTreeIterator { table: &table, log: &log, commit_overlay: &co, iter: BtreeIterBackend(BTree::new(None, 0, 7), BTreeIterState::new(7)),
		col: 0, pending_backend: None, last_key: LastKey::Start };
	let mut pos = Pos::Start;
	let mut c = 0;
	while c < 4 {
		if c < nops {
			if bump == c + 1 { crate::log::verif_kani::overlays_set_record(&log, 8); }
			match ops[c] {
				0 | 1 => {
					let fwd = ops[c] == 0;
					let got = if fwd { it.next() } else { it.prev() }.unwrap();
					let want = spec_step(pos, fwd);
					match (&got, want) {
						(Some((k, v)), Some((wk, wv))) => {
							assert!(k.len() == 1 && k[0] == wk, "C04.M a step returns the nearest live key in the direction of travel (smallest > / >= going forward, largest < / <= going backward)");
							assert!(v.len() == 1 && v[0] == wv, "C04.M a step returns the current value of that key (the overlay's if it has one)");
							pos = Pos::At(wk);
						},
						(None, None) => { pos = if fwd { Pos::End } else { Pos::Start }; },
						(Some(_), None) => assert!(false, "C04.M a step returns nothing when no live key lies in the direction of travel"),
						(None, Some(_)) => assert!(false, "C04.M a step never skips a live key"),
					}
					std::mem::forget(got);
				},
				2 => { let k: u8 = kani::any(); let kk = [k]; it.seek(&kk).unwrap(); pos = Pos::Seeked(k); },
				3 => { it.seek_to_first().unwrap(); pos = Pos::Start; },
				_ => { it.seek_to_last().unwrap(); pos = Pos::End; },
			}
			let want_rec = if bump != 0 && c + 1 >= bump { 8 } else { 7 };
			assert!(it.iter.0.record_id == want_rec && it.iter.1.record_id == want_rec, "C04.C after every call the tree and its cursor are those of the latest enacted record");
		}
		c += 1;
	}
	kani::cover!(nops > 0);
	std::mem::forget(it); std::mem::forget(table); std::mem::forget(log); std::mem::forget(co);
}

macro_rules! c04_m {
	($name:ident, $nb:expr, $no:expr, $ops:expr, $n:expr, $bump:expr) => {
		crate::verif_env! {
			#[kani::proof]
			#[kani::unwind(8)]
			#[kani::stub(crate::btree::iter::BTreeIterState::seek, stub_state_seek)]
			#[kani::stub(crate::btree::iter::BTreeIterState::next, stub_state_next)]
			#[kani::stub(crate::btree::btree::BTree::open, stub_open)]
			#[kani::stub(crate::db::CommitOverlay::btree_next, stub_ov_next)]
			#[kani::stub(crate::db::CommitOverlay::btree_prev, stub_ov_prev)]
			#[kani::stub(crate::db::RcValue::value, crate::db::verif_kani::stub_rc_value)]
			fn $name() { merge_case($nb, $no, $ops, $n, $bump) }
		}
	};
}
// tree keys x overlay entries x call sequence
c04_m!(c04_m_fwd_fwd_fwd_b2_o1, 2, 1, [0, 0, 0, 0], 4, 0);
c04_m!(c04_m_seek_fwd_back_fwd_b2_o1, 2, 1, [2, 0, 1, 0], 4, 0);
c04_m!(c04_m_seek_back_back_fwd_b2_o1, 2, 1, [2, 1, 1, 0], 4, 0);
c04_m!(c04_m_last_back_back_fwd_b2_o2, 2, 2, [4, 1, 1, 0], 4, 0);
c04_m!(c04_m_first_fwd_fwd_back_b3_o1, 3, 1, [3, 0, 0, 1], 4, 0);
c04_m!(c04_m_fwd_back_fwd_back_b1_o2, 1, 2, [0, 1, 0, 1], 4, 0);
c04_m!(c04_m_seek_fwd_fwd_b0_o2, 0, 2, [2, 0, 0, 1], 4, 0);
c04_m!(c04_m_seek_fwd_fwd_b3_o0, 3, 0, [2, 0, 0, 1], 4, 0);
// a record is enacted while the iterator is open
c04_m!(c04_m_fwd_bump_fwd_fwd_b2_o1, 2, 1, [0, 0, 0, 0], 3, 2);
c04_m!(c04_m_seek_fwd_bump_back_b2_o1, 2, 1, [2, 0, 1, 1], 4, 3);
c04_m!(c04_m_bump_last_back_back_b2_o1, 2, 1, [4, 1, 1, 0], 3, 1);
c04_m!(c04_m_fwd_bump_seek_fwd_b2_o1, 2, 1, [0, 2, 0, 0], 3, 2);
c04_m!(c04_m_bump_first_fwd_fwd_b2_o1, 2, 1, [3, 0, 0, 0], 3, 1);

// =====================================================================================
// C04.S: the real tree cursor (BTreeIterState::{seek, next, exit}, Node::seek, node_start) on a two-level tree refines the
// contract used above: run next to the flat-list cursor over the tree's in-order key list, it returns the same key at
// every step, for every seek key, both seek modes, seek-to-last and every direction sequence of the harness.
// Tree: root [100 | 200] over three leaves with concrete keys (the seek key is symbolic: the descent forks, each path is concrete).
// `Node::fetch_child`, `BTree::fetch_root`, `BTreeTable::get_at_value_index` by contract (node store of the harness).
// =====================================================================================
pub const LEAF_N: [usize; 3] = [4, 5, 4];
fn leaf_key(c: usize, j: usize) -> u8 { (c * 100 + 10 + j * 10) as u8 }
fn s_leaf(c: usize) -> Node {
	let mut n = Node { separators: Default::default(), children: Default::default(), changed: false };
	let mut j = 0;
	while j < ORDER { if j < LEAF_N[c] { n.separators[j] = Separator { modified: false, separator: Some(SeparatorInner { key: vec![leaf_key(c, j)], value: Address::from_u64(leaf_key(c, j) as u64 + 1000) }) }; } j += 1; }
	n
}
fn s_root() -> Node {
	let mut n = Node { separators: Default::default(), children: Default::default(), changed: false };
	n.separators[0] = Separator { modified: false, separator: Some(SeparatorInner { key: vec![100], value: Address::from_u64(1100) }) };
	n.separators[1] = Separator { modified: false, separator: Some(SeparatorInner { key: vec![200], value: Address::from_u64(1200) }) };
	let mut c = 0;
	while c < 3 { n.children[c] = Child { moved: false, entry_index: Some(Address::from_u64(500 + c as u64)) }; c += 1; }
	n
}
pub fn stub_fetch_root_s<Q: LogQuery>(root: Address, _t: TablesRef, _log: &Q) -> Result<Node> {
	assert!(root.as_u64() == 400, "C04.S the root is read at the recorded root address");
	Ok(s_root())
}
pub fn stub_fetch_child_s<Q: LogQuery>(n: &Node, i: usize, _values: TablesRef, _log: &Q) -> Result<Option<Node>> {
	match n.children[i].entry_index { Some(a) => { let c = (a.as_u64() - 500) as usize; assert!(c < 3, "harness: leaves are 500..=502"); Ok(Some(s_leaf(c))) }, None => Ok(None) }
}
pub fn stub_value_at<Q: LogQuery>(_t: &BTreeTable, _key: TableKeyQuery, address: Address, _log: &Q) -> Result<Option<(u8, Value)>> {
	let mut v = Vec::with_capacity(1);
	v.push((address.as_u64() - 1000) as u8);
	Ok(Some((0, v)))
}
// flat model over the in-order list (15 keys)
pub const LN: usize = 15;
fn flat(i: usize) -> u8 {
	// leaf0 (4) | 100 | leaf1 (5) | 200 | leaf2 (4)
	if i < 4 { leaf_key(0, i) } else if i == 4 { 100 } else if i < 10 { leaf_key(1, i - 5) } else if i == 10 { 200 } else { leaf_key(2, i - 11) }
}
fn m_seek(kind: u8, k: u8) -> (u8, usize) {
	// kind 0 include, 1 exclude, 2 last
	if kind == 2 { return (3, LN) }
	let mut lt = 0; let mut found = LN; let mut j = 0;
	while j < LN { if flat(j) < k { lt += 1; } if flat(j) == k { found = j; } j += 1; }
	if found < LN { (if kind == 0 { 1 } else { 2 }, found) } else { (3, lt) }
}
fn m_next(cur: (u8, usize), fwd: bool) -> ((u8, usize), Option<u8>) {
	let cur = if cur.0 == 0 { (3u8, if fwd { 0 } else { LN }) } else { cur };
	let at = match (cur.0, fwd) {
		(1, _) => cur.1,
		(2, true) => if cur.1 + 1 < LN { cur.1 + 1 } else { LN },
		(2, false) => if cur.1 > 0 { cur.1 - 1 } else { LN },
		(_, true) => if cur.1 < LN { cur.1 } else { LN },
		(_, false) => if cur.1 > 0 { cur.1 - 1 } else { LN },
	};
	if at == LN { ((0, 0), None) } else { ((2, at), Some(flat(at))) }
}

/// seek kind: 0 include(k), 1 exclude(k), 2 last, 3 none (fresh cursor); dirs: direction of each of the steps (true = forward)
fn cursor_case(kind: u8, dirs: [bool; 4], nsteps: usize) {
	let table = BTreeTable { id: 0, tables: RwLock::new(Vec::new()), ref_counted: false,
		compression: crate::compress::Compress::new(crate::compress::CompressionType::NoCompression, u32::MAX) };
	let view = crate::log::verif_kani::OvView;
	let mut tree = BTree::new(Some(Address::from_u64(400)), 1, 7);
	let mut st = BTreeIterState::new(7);
	let k: u8 = kani::any();
	let mut cur: (u8, usize) = (0, 0);
	if kind < 3 {
		let kk = [k];
		let to = match kind { 0 => SeekTo::Include(&kk), 1 => SeekTo::Exclude(&kk), _ => SeekTo::Last };
		st.seek(to, &mut tree, &table, &view).unwrap();
		cur = m_seek(kind, k);
	}
	let mut s = 0;
	while s < 4 {
		if s < nsteps {
			let d = if dirs[s] { IterDirection::Forward } else { IterDirection::Backward };
			let got = st.next(&mut tree, &table, &view, d).unwrap();
			let (ncur, want) = m_next(cur, dirs[s]);
			cur = ncur;
			match (&got, want) {
				(Some((gk, gv)), Some(w)) => {
					assert!(gk.len() == 1 && gk[0] == w, "C04.S the tree cursor returns the in-order neighbour the flat cursor returns");
					assert!(gv.len() == 1 && gv[0] == w, "C04.S the value is read at the separator's value address");
				},
				(None, None) => {},
				_ => assert!(false, "C04.S the tree cursor runs off the end exactly where the in-order list ends"),
			}
			std::mem::forget(got);
		}
		s += 1;
	}
	kani::cover!(nsteps > 0);
	std::mem::forget(st); std::mem::forget(tree); std::mem::forget(table);
}

macro_rules! c04_s {
	($name:ident, $kind:expr, $dirs:expr, $n:expr) => {
		crate::verif_env! {
			#[kani::proof]
			#[kani::unwind(22)]
			#[kani::stub(crate::btree::btree::BTree::fetch_root, stub_fetch_root_s)]
			#[kani::stub(crate::btree::node::Node::fetch_child, stub_fetch_child_s)]
			#[kani::stub(crate::btree::BTreeTable::get_at_value_index, stub_value_at)]
			fn $name() { cursor_case($kind, $dirs, $n) }
		}
	};
}
c04_s!(c04_s_include_fwd_fwd, 0, [true, true, false, false], 2);
c04_s!(c04_s_include_back_back, 0, [false, false, false, false], 2);
c04_s!(c04_s_include_fwd_back_back, 0, [true, false, false, false], 3);
c04_s!(c04_s_include_back_fwd_fwd, 0, [false, true, true, false], 3);
c04_s!(c04_s_exclude_fwd_fwd, 1, [true, true, false, false], 2);
c04_s!(c04_s_exclude_back_fwd, 1, [false, true, false, false], 2);
c04_s!(c04_s_last_back_back_fwd, 2, [false, false, true, false], 3);
c04_s!(c04_s_last_fwd_back, 2, [true, false, false, false], 2);
c04_s!(c04_s_fresh_fwd_fwd_back, 3, [true, true, false, false], 3);
c04_s!(c04_s_fresh_back_back_fwd, 3, [false, false, true, false], 3);
// C04.C alone: empty tree and empty overlay (no key traffic): the record-id bookkeeping of every entry point
c04_m!(c04_c_record_ids_bump_last_back, 0, 0, [4, 1, 0, 0], 2, 1);
c04_m!(c04_c_record_ids_bump_seek_fwd, 0, 0, [2, 0, 0, 0], 2, 1);
c04_m!(c04_c_record_ids_fwd_bump_back, 0, 0, [0, 1, 0, 0], 2, 2);
c04_m!(c04_c_record_ids_bump_first_fwd, 0, 0, [3, 0, 0, 0], 2, 1);
// tree cursor only (no overlay entry): direction changes, ends, re-seek after a record was enacted
c04_m!(c04_m_tree_seek_fwd_back_fwd_b3, 3, 0, [2, 0, 1, 0], 4, 0);
c04_m!(c04_m_tree_last_back_fwd_fwd_b2, 2, 0, [4, 1, 0, 0], 4, 0);
c04_m!(c04_m_tree_fwd_fwd_bump_fwd_b3, 3, 0, [0, 0, 0, 0], 3, 3);
c04_m!(c04_m_tree_seek_back_bump_back_b3, 3, 0, [2, 1, 1, 0], 3, 3);
c04_m!(c04_m_tree_fwd_bump_back_b2, 2, 0, [0, 1, 0, 0], 2, 2);
// overlay and tree, two calls (each further call with an overlay entry costs minutes: keys come back through Arc<Vec<u8>>)
c04_m!(c04_m_seek_fwd_b1_o1, 1, 1, [2, 0, 0, 0], 2, 0);
c04_m!(c04_m_seek_back_b1_o1, 1, 1, [2, 1, 0, 0], 2, 0);
c04_m!(c04_m_fwd_fwd_b1_o1, 1, 1, [0, 0, 0, 0], 2, 0);
c04_m!(c04_m_fwd_back_b1_o1, 1, 1, [0, 1, 0, 0], 2, 0);
c04_m!(c04_m_last_back_b1_o1, 1, 1, [4, 1, 0, 0], 2, 0);
c04_m!(c04_m_fwd_fwd_b0_o1, 0, 1, [0, 0, 0, 0], 2, 0);

// =====================================================================================
// C04.E: leaving a child (BTreeIterState::exit): the cursor has finished child `c` of a node with `n` separators
// (children 0..=n). Going forward the next position is separator c if there is one (c < n), otherwise the node is
// finished too; going backward it is separator c - 1 if c > 0 (recorded as Before(c)), otherwise the node is finished.
// Every n in 1..=8 (n = 8: a full node, children 0..=8) and every c in 0..=n; stack of one inner node and one leaf.
// =====================================================================================
fn exit_case(forward: bool) {
	let n: usize = kani::any();
	let c: usize = kani::any();
	kani::assume(n >= 1 && n <= ORDER && c <= n);
	let mut parent = Node { separators: Default::default(), children: Default::default(), changed: false };
	let mut j = 0;
	while j < ORDER { if j < n { parent.separators[j] = Separator { modified: false, separator: Some(SeparatorInner { key: Vec::new(), value: Address::from_u64(1 + j as u64) }) }; } j += 1; }
	let leaf = Node { separators: Default::default(), children: Default::default(), changed: false };
	let mut st = BTreeIterState::new(1);
	st.state = Vec::with_capacity(4);
	st.state.push((LastIndex::Descend(c), parent));
	st.state.push((LastIndex::At(0), leaf));
	let exhausted = st.exit(if forward { IterDirection::Forward } else { IterDirection::Backward });
	let more = if forward { c < n } else { c > 0 };
	if more {
		assert!(!exhausted && st.state.len() == 1, "C04.E the node stays on the stack while it has a separator left in the direction of travel");
		assert!(matches!(st.state[0].0, LastIndex::Before(x) if x == c), "C04.E the cursor stands before separator c (forward: separator c is next; backward: separator c - 1)");
	} else {
		assert!(exhausted && st.state.len() == 0, "C04.E a node without separator left in the direction of travel is left as well");
	}
	kani::cover!(more && n == ORDER && c + 1 == ORDER);
	kani::cover!(!more);
	std::mem::forget(st);
}
crate::verif_env! {
	#[kani::proof]
	#[kani::unwind(10)]
	fn c04_e_exit_forward() { exit_case(true) }
}
crate::verif_env! {
	#[kani::proof]
	#[kani::unwind(10)]
	fn c04_e_exit_backward() { exit_case(false) }
}

// =====================================================================================
// C04.S1: one step of the real tree cursor (BTreeIterState::next with exit, node_start, Node::fetch_child by contract)
// from an ARBITRARY valid cursor position on a two-level tree — the inductive form of C04.S (whole sequences on a tree
// did not fit). Position: the cursor is inside leaf number c of a root with n separators (1..=8, c <= n), the leaf has
// m separators (1..=8), the leaf position is Seeked(i) / At(i) / Before(i); or the cursor stands on the root at
// At(i) / Before(i) and the next step descends. Expected: the in-order neighbour in the direction of travel
// (leaf key, else the root separator next to the leaf, else nothing), exactly the flat-cursor contract of C04.M.
// Keys: leaf key j = [j], root separator j = [100 + j]; a freshly fetched child has keys [200], [201], [202].
// =====================================================================================
fn s1_sep(k: u8) -> Separator { Separator { modified: false, separator: Some(SeparatorInner { key: vec![k], value: Address::from_u64(1000 + k as u64) }) } }
pub fn stub_fetch_child_s1<Q: LogQuery>(n: &Node, i: usize, _values: TablesRef, _log: &Q) -> Result<Option<Node>> {
	match n.children[i].entry_index {
		Some(_) => {
			let mut l = Node { separators: Default::default(), children: Default::default(), changed: false };
			l.separators[0] = s1_sep(200); l.separators[1] = s1_sep(201); l.separators[2] = s1_sep(202);
			Ok(Some(l))
		},
		None => Ok(None),
	}
}
fn s1_root(n: usize) -> Node {
	let mut r = Node { separators: Default::default(), children: Default::default(), changed: false };
	let mut j = 0;
	while j < ORDER { if j < n { r.separators[j] = s1_sep(100 + j as u8); } j += 1; }
	let mut j = 0;
	while j < ORDER_CHILD { if j <= n { r.children[j] = Child { moved: false, entry_index: Some(Address::from_u64(500 + j as u64)) }; } j += 1; }
	r
}
fn s1_check(got: &Option<(Vec<u8>, Value)>, want: Option<u8>) {
	match (got, want) {
		(Some((k, v)), Some(w)) => {
			assert!(k.len() == 1 && k[0] == w, "C04.S1 one cursor step returns the in-order neighbour in the direction of travel");
			assert!(v.len() == 1 && v[0] == w, "C04.S1 the value is read at the separator's value address");
		},
		(None, None) => {},
		(Some(_), None) => assert!(false, "C04.S1 the cursor runs off the end where the in-order list ends"),
		(None, Some(_)) => assert!(false, "C04.S1 the cursor never skips a key"),
	}
}
pub fn stub_value_at_s1<Q: LogQuery>(_t: &BTreeTable, _key: TableKeyQuery, address: Address, _log: &Q) -> Result<Option<(u8, Value)>> {
	let mut v = Vec::with_capacity(1);
	v.push((address.as_u64() - 1000) as u8);
	Ok(Some((0, v)))
}

/// the cursor is inside a leaf; n = separators of the root (concrete), m = separators of the leaf (concrete)
fn step_in_leaf_case(n: usize, m: usize) {
	// position (c, i) concrete per path (10.3: an array index that is symbolic makes every key clone a symbolic-pointer copy:
	// 20 min, 18 GB without a verdict), kind and direction symbolic
	let cs: usize = kani::any();
	let is: usize = kani::any();
	kani::assume(cs <= n && is <= m);
	let mut c = 0;
	while c <= 8 { if c <= n && c == cs { let mut i = 0; while i <= 8 { if i <= m && i == is { step_in_leaf_at(n, m, c, i); } i += 1; } } c += 1; }
}
fn step_in_leaf_at(n: usize, m: usize, c: usize, i: usize) {
	let table = BTreeTable { id: 0, tables: RwLock::new(Vec::new()), ref_counted: false,
		compression: crate::compress::Compress::new(crate::compress::CompressionType::NoCompression, u32::MAX) };
	let view = crate::log::verif_kani::OvView;
	let mut tree = BTree::new(Some(Address::from_u64(400)), 1, 7);
	let mut leaf = Node { separators: Default::default(), children: Default::default(), changed: false };
	let mut j = 0;
	while j < ORDER { if j < m { leaf.separators[j] = s1_sep(j as u8); } j += 1; }
	let kind: u8 = kani::any();
	kani::assume(kind < 3 && if kind == 2 { i <= m } else { i < m });
	let ix = match kind { 0 => LastIndex::Seeked(i), 1 => LastIndex::At(i), _ => LastIndex::Before(i) };
	let mut st = BTreeIterState::new(7);
	st.state = Vec::with_capacity(4);
	st.state.push((LastIndex::Descend(c), s1_root(n)));
	st.state.push((ix, leaf));
	let fwd: bool = kani::any();
	let got = st.next(&mut tree, &table, &view, if fwd { IterDirection::Forward } else { IterDirection::Backward }).unwrap();
	// specification
	let in_leaf: Option<usize> = match (kind, fwd) {
		(0, _) => Some(i),
		(1, true) => if i + 1 < m { Some(i + 1) } else { None },
		(1, false) => if i > 0 { Some(i - 1) } else { None },
		(_, true) => if i < m { Some(i) } else { None },
		(_, false) => if i > 0 { Some(i - 1) } else { None },
	};
	let want = match in_leaf {
		Some(j) => Some(j as u8),
		None => if fwd { if c < n { Some(100 + c as u8) } else { None } } else { if c > 0 { Some(100 + c as u8 - 1) } else { None } },
	};
	s1_check(&got, want);
	kani::cover!(in_leaf.is_none() && want.is_some());
	kani::cover!(want.is_none());
	std::mem::forget(got); std::mem::forget(st); std::mem::forget(tree); std::mem::forget(table);
}

/// the cursor stands on the root (after it returned separator i, or before separator i): the next step descends
fn step_on_root_case(n: usize) {
	let is: usize = kani::any();
	kani::assume(is <= n);
	let mut i = 0;
	while i <= 8 { if i <= n && i == is { step_on_root_at(n, i); } i += 1; }
}
fn step_on_root_at(n: usize, i: usize) {
	let table = BTreeTable { id: 0, tables: RwLock::new(Vec::new()), ref_counted: false,
		compression: crate::compress::Compress::new(crate::compress::CompressionType::NoCompression, u32::MAX) };
	let view = crate::log::verif_kani::OvView;
	let mut tree = BTree::new(Some(Address::from_u64(400)), 1, 7);
	let at: bool = kani::any();
	kani::assume(if at { i < n } else { i <= n });
	let mut st = BTreeIterState::new(7);
	st.state = Vec::with_capacity(4);
	st.state.push((if at { LastIndex::At(i) } else { LastIndex::Before(i) }, s1_root(n)));
	let fwd: bool = kani::any();
	let got = st.next(&mut tree, &table, &view, if fwd { IterDirection::Forward } else { IterDirection::Backward }).unwrap();
	let want = match (at, fwd) {
		(true, true) => Some(200),                       // first key of child i + 1
		(true, false) => Some(202),                      // last key of child i
		(false, true) => if i < n { Some(100 + i as u8) } else { None },   // separator i is next
		(false, false) => if i > 0 { Some(100 + i as u8 - 1) } else { None },
	};
	s1_check(&got, want);
	if at {
		assert!(st.state.len() == 2 && matches!(st.state[0].0, LastIndex::Descend(x) if x == if fwd { i + 1 } else { i }), "C04.S1 after a root separator the cursor descends into the child on the far side of it");
	}
	kani::cover!(at && fwd);
	kani::cover!(want.is_none());
	std::mem::forget(got); std::mem::forget(st); std::mem::forget(tree); std::mem::forget(table);
}

macro_rules! c04_s1 {
	($name:ident, $body:expr) => {
		crate::verif_env! {
			#[kani::proof]
			#[kani::unwind(12)]
			#[kani::stub(crate::btree::node::Node::fetch_child, stub_fetch_child_s1)]
			#[kani::stub(crate::btree::BTreeTable::get_at_value_index, stub_value_at_s1)]
			fn $name() { $body }
		}
	};
}
c04_s1!(c04_s1_step_in_leaf_full_root_full_leaf, step_in_leaf_case(8, 8));
c04_s1!(c04_s1_step_in_leaf_full_root_small_leaf, step_in_leaf_case(8, 4));
c04_s1!(c04_s1_step_in_leaf_small_root, step_in_leaf_case(2, 3));
c04_s1!(c04_s1_step_on_full_root, step_on_root_case(8));
c04_s1!(c04_s1_step_on_small_root, step_on_root_case(3));
