//! "iosub" build (DESIGN 10.7): the payload of `Error::Io` / `Error::Locked` is reduced to its `ErrorKind`.
//! parity-db only ever inspects `kind()` of a stored I/O error (log.rs: UnexpectedEof) and prints it; the drop glue
//! of the real `std::io::Error` (bit-packed pointer to a boxed `dyn Error`) is what kept every `DbInner`-level
//! harness in symbolic execution for 20+ minutes. The conversion keeps the kind and forgets the original value.
#![allow(dead_code)]
use std::io;

#[derive(Debug)]
pub struct IoErr(pub io::ErrorKind);

impl IoErr {
	pub fn kind(&self) -> io::ErrorKind { self.0 }
}
impl From<io::Error> for IoErr {
	fn from(e: io::Error) -> Self {
		let k = e.kind();
		std::mem::forget(e);
		IoErr(k)
	}
}
impl std::fmt::Display for IoErr {
	fn fmt(&self, _f: &mut std::fmt::Formatter<'_>) -> std::fmt::Result { Ok(()) }
}
impl std::error::Error for IoErr {}
pub fn io(e: io::Error) -> crate::error::Error { crate::error::Error::Io(e.into()) }
pub fn locked(e: io::Error) -> crate::error::Error { crate::error::Error::Locked(e.into()) }
