//! Harnesses and environment for src/log.rs: array-backed record overlay (3.4), log bytes behind `File` (3.3),
//! C13.P1 (record parser), C12.O1/O2 (sync before hand-over), C12 Log::clean_logs ordering.
#![allow(dead_code, unused_imports, static_mut_refs)]
use super::*;
use crate::verif_common as vc;

// =====================================================================================
// Array-backed per-record overlay: replaces LogWriter::{insert_value, value, value_ref}
// =====================================================================================
pub const OT: usize = 3; // tables (by size tier)
pub const OS: usize = 10; // slots per table
pub const OB: usize = 64; // bytes per slot
pub static mut OV_USED: [[bool; OS]; OT] = [[false; OS]; OT];
pub static mut OV_LEN: [[usize; OS]; OT] = [[0; OS]; OT];
pub static mut OV_DATA: [[[u8; OB]; OS]; OT] = [[[0u8; OB]; OS]; OT];
pub static mut OV_WRITES: usize = 0;

pub fn ov_reset() {
	unsafe {
		let mut t = 0;
		while t < OT { let mut s = 0; while s < OS { OV_USED[t][s] = false; OV_LEN[t][s] = 0; s += 1; } t += 1; }
		OV_WRITES = 0;
	}
}

pub fn ov_insert_value<'a>(_w: &mut LogWriter<'a>, table: ValueTableId, index: u64, data: Vec<u8>) where 'a: 'a {
	let t = table.size_tier() as usize;
	let i = index as usize;
	assert!(t < OT && i < OS && data.len() <= OB, "harness bound: overlay capacity");
	unsafe {
		OV_USED[t][i] = true;
		OV_LEN[t][i] = data.len();
		let n = data.len();
		let mut k = 0;
		while k < OB { if k < n { OV_DATA[t][i][k] = data[k]; } k += 1; }
		OV_WRITES += 1;
	}
}

pub fn ov_value<'q>(_w: &LogWriter<'q>, table: ValueTableId, index: u64, dest: &mut [u8]) -> bool where 'q: 'q {
	let t = table.size_tier() as usize;
	let i = index as usize;
	unsafe {
		if t >= OT || i >= OS || !OV_USED[t][i] { return false }
		let len = if dest.len() < OV_LEN[t][i] { dest.len() } else { OV_LEN[t][i] };
		let mut k = 0;
		while k < OB { if k < len { dest[k] = OV_DATA[t][i][k]; } k += 1; }
	}
	true
}

pub fn ov_value_ref<'q, 'v>(_w: &'v LogWriter<'q>, table: ValueTableId, index: u64) -> Option<LogWriterValueGuard<'v>> where 'q: 'q {
	let t = table.size_tier() as usize;
	let i = index as usize;
	unsafe {
		if t >= OT || i >= OS || !OV_USED[t][i] { return None }
		Some(LogWriterValueGuard::Local(&OV_DATA[t][i][0..OV_LEN[t][i]]))
	}
}

/// A LogQuery implementor over the same array overlay, for the read paths that are generic in `impl LogQuery`
/// (query, size, get, for_parts, HashColumn::get ...). Its ValueRef is a plain `&[u8]`: a two-word value that CBMC
/// keeps concrete. (Probed: the `Option<LogWriterValueGuard>` that LogWriter's own value_ref returns is a nested
/// enum; constants read through it — markers, next pointers — are no longer constants for symbolic execution and
/// every chain-walk loop then unwinds to the bound.)
pub struct OvView;
/// Index pages visible to OvView: up to 3 (table id, page number, page) triples.
pub const VP: usize = 3;
pub static mut VP_USED: [bool; VP] = [false; VP];
pub static mut VP_TABLE: [u16; VP] = [0; VP];
pub static mut VP_AT: [u64; VP] = [0; VP];
pub static mut VP_PAGE: [IndexChunk; VP] = [IndexChunk([0u8; 512]), IndexChunk([0u8; 512]), IndexChunk([0u8; 512])];
pub fn view_reset_pages() { unsafe { let mut k = 0; while k < VP { VP_USED[k] = false; k += 1; } } }
pub fn view_set_page(slot: usize, table: IndexTableId, at: u64, page: IndexChunk) {
	unsafe { VP_USED[slot] = true; VP_TABLE[slot] = table.as_u16(); VP_AT[slot] = at; VP_PAGE[slot] = page; }
}
impl LogQuery for OvView {
	type ValueRef<'a> = &'a [u8];
	fn with_index<R, F: FnOnce(&IndexChunk) -> R>(&self, table: IndexTableId, index: u64, f: F) -> Option<R> {
		unsafe {
			let mut k = 0;
			while k < VP {
				if VP_USED[k] && VP_TABLE[k] == table.as_u16() && VP_AT[k] == index { return Some(f(&VP_PAGE[k])) }
				k += 1;
			}
		}
		None
	}
	fn value(&self, table: ValueTableId, index: u64, dest: &mut [u8]) -> bool {
		let t = table.size_tier() as usize;
		let i = index as usize;
		unsafe {
			if t >= OT || i >= OS || !OV_USED[t][i] { return false }
			let len = if dest.len() < OV_LEN[t][i] { dest.len() } else { OV_LEN[t][i] };
			let mut k = 0;
			while k < OB { if k < len { dest[k] = OV_DATA[t][i][k]; } k += 1; }
		}
		true
	}
	fn value_ref<'a>(&'a self, table: ValueTableId, index: u64) -> Option<&'a [u8]> {
		let t = table.size_tier() as usize;
		let i = index as usize;
		unsafe {
			if t >= OT || i >= OS || !OV_USED[t][i] { return None }
			Some(&OV_DATA[t][i][0..OV_LEN[t][i]])
		}
	}
	fn ref_count<R, F: FnOnce(&RefCountChunk) -> R>(&self, _table: RefCountTableId, _index: u64, _f: F) -> Option<R> { None }
}

/// Harness-side view of "what the record contains for (table, slot)" that works under Kani (array overlay)
/// and natively (real LogWriter): goes through the LogQuery interface, which is stubbed under Kani.
pub fn rec_get(w: &LogWriter, table: ValueTableId, index: u64, dest: &mut [u8]) -> bool {
	LogQuery::value(w, table, index, dest)
}

/// Overlays of a one-column database whose latest enacted record (for column 0) is `rec` (C04.M / C04.C).
pub fn overlays_with_record(rec: u64) -> RwLock<LogOverlays> {
	let mut ids = Vec::with_capacity(1);
	ids.push(rec);
	RwLock::new(LogOverlays { index: Vec::new(), value: Vec::new(), ref_count: Vec::new(), last_record_ids: ids })
}
pub fn overlays_set_record(o: &RwLock<LogOverlays>, rec: u64) { o.write().last_record_ids[0] = rec; }

pub fn new_overlays() -> RwLock<LogOverlays> {
	ov_reset();
	RwLock::new(LogOverlays::with_columns(0))
}

// =====================================================================================
// Log bytes behind File (3.3)
// =====================================================================================
pub const LOG_BYTES: usize = 48;
pub static mut BUF: [u8; LOG_BYTES] = [0u8; LOG_BYTES];
pub static mut LEN: usize = 0;
pub static mut POS: usize = 0;

/// File::read model: serves bytes from BUF[POS..LEN]; a read past the logical end returns 0 bytes (EOF),
/// which read_exact turns into UnexpectedEof: "the file is truncated at any offset" is the LEN variable.
pub fn stub_file_read(_r: &mut std::fs::File, buf: &mut [u8]) -> std::io::Result<usize> {
	unsafe {
		let n = buf.len();
		if POS + n > LEN { return Ok(0) }
		let mut k = 0;
		while k < n { buf[k] = BUF[POS + k]; k += 1; }
		POS += n;
		Ok(n)
	}
}

/// BufReader with a non-zero capacity (as created by Log::read_next) refills through read_buf.
pub fn stub_file_read_buf(_r: &mut std::fs::File, mut cursor: std::io::BorrowedCursor<'_, u8>) -> std::io::Result<()> {
	unsafe {
		// harnesses using this stub keep LEN and POS concrete: one concrete-size copy (content stays symbolic)
		assert!(cursor.capacity() >= LEN - POS, "harness bound: reader buffer holds the whole file");
		cursor.append(&BUF[POS..LEN]);
		POS = LEN;
	}
	Ok(())
}

pub fn reading_at(fd: i32) -> RwLock<Option<Reading>> {
	RwLock::new(Some(Reading { id: 0, file: std::io::BufReader::with_capacity(0, vc::raw_file(fd)) }))
}

/// Header bytes consumed by each action kind (tag included) — the log format specification.
fn header_size(tag: u8) -> Option<usize> {
	match tag {
		1 => Some(1 + 8),
		2 | 3 | 6 => Some(1 + 2 + 8),
		4 => Some(1 + 4),
		5 | 7 => Some(1 + 2),
		_ => None,
	}
}

/// C13.P1a: one `next()` on arbitrary bytes with arbitrary truncation: no panic; unknown tag = Corruption;
/// every action consumes exactly its header; decoded fields are the little-endian bytes.
fn parser_one_action(validate: bool) {
	unsafe { BUF = kani::any(); LEN = kani::any(); kani::assume(LEN <= 16); POS = 0; }
	let lock = reading_at(3);
	let mut r = LogReader::new(lock.write(), validate);
	let res = r.next();
	let tag = unsafe { BUF[0] };
	let len = unsafe { LEN };
	let b = unsafe { BUF };
	match &res {
		Ok(a) => {
			let hs = header_size(tag);
			assert!(hs.is_some(), "C13.P1 unknown tag is never accepted");
			let hs = hs.unwrap();
			assert!(hs <= len, "C13.P1 never reads past the end of the file");
			assert!(r.read_bytes() as usize == hs, "C13.P1 byte accounting equals the header size");
			assert!(unsafe { POS } == hs, "C13.P1 file position equals bytes accounted");
			match a {
				LogAction::BeginRecord => {
					assert!(tag == 1, "C13.P1 tag 1 is BeginRecord");
					assert!(r.record_id() == u64::from_le_bytes([b[1], b[2], b[3], b[4], b[5], b[6], b[7], b[8]]), "C13.P1 record id decoded");
				},
				LogAction::InsertIndex(x) => {
					assert!(tag == 2, "C13.P1 tag 2 is InsertIndex");
					assert!(x.table.as_u16() == u16::from_le_bytes([b[1], b[2]]), "C13.P1 table id decoded");
					assert!(x.index == u64::from_le_bytes([b[3], b[4], b[5], b[6], b[7], b[8], b[9], b[10]]), "C13.P1 index decoded");
				},
				LogAction::InsertValue(x) => {
					assert!(tag == 3, "C13.P1 tag 3 is InsertValue");
					assert!(x.table.as_u16() == u16::from_le_bytes([b[1], b[2]]), "C13.P1 table id decoded");
					assert!(x.index == u64::from_le_bytes([b[3], b[4], b[5], b[6], b[7], b[8], b[9], b[10]]), "C13.P1 index decoded");
				},
				LogAction::InsertRefCount(x) => {
					assert!(tag == 6, "C13.P1 tag 6 is InsertRefCount");
					assert!(x.table.as_u16() == u16::from_le_bytes([b[1], b[2]]), "C13.P1 table id decoded");
					assert!(x.index == u64::from_le_bytes([b[3], b[4], b[5], b[6], b[7], b[8], b[9], b[10]]), "C13.P1 index decoded");
				},
				LogAction::DropTable(t) => { assert!(tag == 5 && t.as_u16() == u16::from_le_bytes([b[1], b[2]]), "C13.P1 tag 5 is DropTable"); },
				LogAction::DropRefCountTable(t) => { assert!(tag == 7 && t.as_u16() == u16::from_le_bytes([b[1], b[2]]), "C13.P1 tag 7 is DropRefCountTable"); },
				LogAction::EndRecord => {
					assert!(tag == 4, "C13.P1 tag 4 is EndRecord");
					if validate {
						// nothing else was read: the CRC of the single tag byte must match
						let mut h = crc32fast::Hasher::new();
						h.update(&[4u8]);
						assert!(u32::from_le_bytes([b[1], b[2], b[3], b[4]]) == h.finalize(), "C13.P1 EndRecord accepted only with matching CRC");
					}
				},
			}
		},
		Err(Error::Corruption(_)) => {
			assert!(len >= 1, "C13.P1 corruption needs at least a tag");
			let crc_case = tag == 4 && validate && len >= 5;
			assert!(header_size(tag).is_none() || crc_case, "C13.P1 Corruption only for an unknown tag or a CRC mismatch");
		},
		Err(Error::Io(_)) => {
			let hs = header_size(tag);
			assert!(len == 0 || (hs.is_some() && hs.unwrap() > len), "C13.P1 Io error only when the file ends inside the header");
		},
		Err(_) => assert!(false, "C13.P1 no other error kind"),
	}
	kani::cover!(matches!(res, Ok(LogAction::EndRecord)));
	kani::cover!(matches!(res, Ok(LogAction::InsertValue(_))));
	kani::cover!(!validate || (matches!(res, Err(Error::Corruption(_))) && tag == 4));
	std::mem::forget(res);
	std::mem::forget(r);
	std::mem::forget(lock);
}

crate::verif_env! {
#[kani::proof]
#[kani::unwind(12)]
#[kani::stub(<std::fs::File as std::io::Read>::read, stub_file_read)]
#[kani::stub(crc32fast::Hasher::internal_new_specialized, crate::verif_common::no_specialized_crc)]
fn c13_p1a_parser_one_action() { parser_one_action(false) }
}
crate::verif_env! {
#[kani::proof]
#[kani::unwind(12)]
#[kani::stub(<std::fs::File as std::io::Read>::read, stub_file_read)]
#[kani::stub(crc32fast::Hasher::internal_new_specialized, crate::verif_common::no_specialized_crc)]
fn c13_p1a_parser_one_action_validating() { parser_one_action(true) }
}

/// C13.P1b CRC gate over a whole (small) record: BeginRecord, one InsertValue header followed by `n` payload
/// bytes read through LogReader::read, EndRecord. EndRecord is returned iff the stored checksum equals the
/// CRC-32 (portable crc32fast, real code) of every byte consumed since the start of the record.
fn crc_gate(n: usize) {
	unsafe { BUF = kani::any(); POS = 0; }
	let total = 9 + 11 + n + 5;
	unsafe { LEN = total; BUF[0] = 1; BUF[9] = 3; BUF[20 + n] = 4; }
	let lock = reading_at(3);
	let mut r = LogReader::new(lock.write(), true);
	let a = r.next();
	assert!(matches!(a, Ok(LogAction::BeginRecord)), "C13.P1 begin");
	let a = r.next();
	assert!(matches!(a, Ok(LogAction::InsertValue(_))), "C13.P1 insert value header");
	let mut payload = [0u8; 8];
	r.read(&mut payload[..n]).unwrap();
	let e = r.next();
	let b = unsafe { BUF };
	let mut h = crc32fast::Hasher::new();
	h.update(&b[..20 + n + 1]);
	let expect = h.finalize();
	let stored = u32::from_le_bytes([b[21 + n], b[22 + n], b[23 + n], b[24 + n]]);
	match &e {
		Ok(LogAction::EndRecord) => assert!(stored == expect, "C13.P1 record accepted only with matching CRC"),
		Err(Error::Corruption(_)) => assert!(stored != expect, "C13.P1 record with matching CRC is accepted"),
		_ => assert!(false, "C13.P1 EndRecord or Corruption"),
	}
	assert!(r.read_bytes() as usize == total, "C13.P1 byte accounting over the record");
	kani::cover!(matches!(e, Ok(LogAction::EndRecord)));
	kani::cover!(matches!(e, Err(Error::Corruption(_))));
	std::mem::forget(a); std::mem::forget(e);
	std::mem::forget(r);
	std::mem::forget(lock);
}

crate::verif_env! {
#[kani::proof]
#[kani::unwind(40)]
#[kani::stub(<std::fs::File as std::io::Read>::read, stub_file_read)]
#[kani::stub(crc32fast::Hasher::internal_new_specialized, crate::verif_common::no_specialized_crc)]
fn c13_p1b_crc_gate_n2() { crc_gate(2) }
}
crate::verif_env! {
#[kani::proof]
#[kani::unwind(40)]
#[kani::stub(<std::fs::File as std::io::Read>::read, stub_file_read)]
#[kani::stub(crc32fast::Hasher::internal_new_specialized, crate::verif_common::no_specialized_crc)]
fn c13_p1b_crc_gate_n8() { crc_gate(8) }
}

/// Must-fail twin for the parser family.
crate::verif_env! {
#[kani::proof]
#[kani::unwind(12)]
#[kani::stub(<std::fs::File as std::io::Read>::read, stub_file_read)]
#[kani::stub(crc32fast::Hasher::internal_new_specialized, crate::verif_common::no_specialized_crc)]
fn c13_twin_must_fail() {
	unsafe { BUF = kani::any(); LEN = kani::any(); kani::assume(LEN <= 16); POS = 0; }
	let lock = reading_at(3);
	let mut r = LogReader::new(lock.write(), true);
	let res = r.next();
	assert!(res.is_err(), "TWIN the parser never accepts anything (must fail)");
	std::mem::forget(res); std::mem::forget(r); std::mem::forget(lock);
}
}

// =====================================================================================
// Reader-level stub for validate_plan / enact_plan harnesses (C13.P2): length accounting only.
// =====================================================================================
pub static mut RD_LEN: usize = 0; // logical number of payload bytes available
pub static mut RD_POS: usize = 0;
pub static mut RD_HEAD: [u8; 16] = [0u8; 16]; // the first 16 payload bytes (size field, mask, header)

pub fn rd_reset(head: [u8; 16], len: usize) {
	unsafe { RD_HEAD = head; RD_LEN = len; RD_POS = 0; }
}

/// LogReader::read model: advances the position, fails past the logical end, copies only bytes of the
/// 16-byte head (content beyond it is irrelevant to which slices the table code forms).
pub fn stub_reader_read<'a>(r: &mut LogReader<'a>, buf: &mut [u8]) -> Result<()> where 'a: 'a {
	unsafe {
		let n = buf.len();
		if RD_POS + n > RD_LEN { return Err(Error::Io(std::io::Error::from(std::io::ErrorKind::UnexpectedEof).into())) }
		let mut k = 0;
		while k < 16 { if k < n && RD_POS + k < 16 { buf[k] = RD_HEAD[RD_POS + k]; } k += 1; }
		RD_POS += n;
	}
	r.read_bytes += buf.len() as u64;
	Ok(())
}

/// Run `f` with a LogReader over the harness log file (for harnesses outside this module: `Reading` is private to log.rs).
pub fn with_reader<R>(f: impl FnOnce(&mut LogReader) -> R) -> R {
	let lock = reading_at(3);
	let mut rd = LogReader::new(lock.write(), false);
	let r = f(&mut rd);
	std::mem::forget(rd);
	std::mem::forget(lock);
	r
}
pub fn reader_for_tables<'a>(lock: &'a RwLock<Option<Reading>>, validate: bool) -> LogReader<'a> { LogReader::new(lock.write(), validate) }

// =====================================================================================
// C12: call order on the real Log functions with an event-recording environment
// =====================================================================================
pub const FE_MAX: usize = 24;
/// (kind, fd): 1 = sync_data ok, 2 = sync_data failed, 3 = set_len(0), 4 = sync_all ok, 5 = sync_all failed, 6 = seek, 7 = set_len failed
pub static mut FEV: [(u8, i32); FE_MAX] = [(0, 0); FE_MAX];
pub static mut FEV_N: usize = 0;
pub static mut FAIL_SYNC_DATA: bool = false;
pub static mut FAIL_SYNC_ALL: bool = false;
pub static mut FAIL_SET_LEN: bool = false;

pub fn fev(kind: u8, fd: i32) { unsafe { if FEV_N < FE_MAX { FEV[FEV_N] = (kind, fd); } FEV_N += 1; } }
pub fn fev_reset() { unsafe { FEV_N = 0; FAIL_SYNC_DATA = false; FAIL_SYNC_ALL = false; FAIL_SET_LEN = false; } }
fn fd_of(f: &std::fs::File) -> i32 { use std::os::fd::AsRawFd; f.as_raw_fd() }

/// The Log under test (set by C12 harnesses) so that the sync model can observe what was already handed over.
pub static mut LOG_PTR: *const Log = std::ptr::null();
pub static mut QUEUED_AT_SYNC: usize = 99;
pub fn stub_sync_data(f: &std::fs::File) -> std::io::Result<()> {
	unsafe { if !LOG_PTR.is_null() { QUEUED_AT_SYNC = (*LOG_PTR).read_queue.read().len(); } }
	if unsafe { FAIL_SYNC_DATA } { fev(2, fd_of(f)); return Err(std::io::Error::from(std::io::ErrorKind::Other)) }
	fev(1, fd_of(f));
	Ok(())
}
pub fn stub_sync_all(f: &std::fs::File) -> std::io::Result<()> {
	if unsafe { FAIL_SYNC_ALL } { fev(5, fd_of(f)); return Err(std::io::Error::from(std::io::ErrorKind::Other)) }
	fev(4, fd_of(f));
	Ok(())
}
pub fn stub_set_len(f: &std::fs::File, size: u64) -> std::io::Result<()> {
	if unsafe { FAIL_SET_LEN } { fev(7, fd_of(f)); return Err(std::io::Error::from(std::io::ErrorKind::Other)) }
	assert!(size == 0, "only truncation to zero is expected");
	fev(3, fd_of(f));
	Ok(())
}
/// dup(2): another handle on the same open file (harness fds are small integers; the duplicate is fd + 100)
pub fn stub_try_clone(f: &std::fs::File) -> std::io::Result<std::fs::File> { Ok(vc::raw_file(fd_of(f) + 100)) }
pub fn stub_file_seek(f: &mut std::fs::File, _pos: std::io::SeekFrom) -> std::io::Result<u64> {
	fev(6, fd_of(f));
	Ok(0)
}

/// Environment nondeterminism for C12.O3b: while a table flush is in progress another worker may finish enacting a
/// log file and append it to the cleanup queue. Enabled by harnesses through RACE_ON (fd 30 marks the late file).
pub static mut RACE_ON: bool = false;
pub static mut RACE_DONE: bool = false;
pub fn race_hook() {}
/// The race is modelled through the one observation DbInner::clean_logs makes of the queue before cleaning:
/// `Log::num_dirty_logs`. The late file (id 3, fd 30) sits at the back of the queue from the start; the first call of
/// num_dirty_logs (before the table flush) does not count it yet, later calls do. Log::clean_logs drains from the front,
/// so this is indistinguishable from the file being appended while the flush runs — without mutating the queue through
/// a raw pointer inside a stub (that variant never left symbolic execution: VecDeque drain/rotate on a queue whose
/// length was no longer a constant).
pub static mut NDL_CALLS: usize = 0;
pub fn stub_num_dirty_logs(log: &Log) -> usize {
	let n = log.cleanup_queue.read().len();
	unsafe {
		NDL_CALLS += 1;
		if RACE_ON && NDL_CALLS == 1 { n - 1 } else { n }
	}
}
pub fn set_log_ptr(log: &Log) { unsafe { LOG_PTR = log as *const Log; } }
pub fn clear_log_ptr() { unsafe { LOG_PTR = std::ptr::null(); } }
pub fn log_push_cleanup(log: &Log, id: u32, fd: i32) { log.cleanup_queue.write().push_back((id, vc::raw_file(fd))); }
pub fn log_cleanup_len(log: &Log) -> usize { log.cleanup_queue.read().len() }
pub fn log_cleanup_has(log: &Log, id: u32) -> bool { log.cleanup_queue.read().iter().any(|(i, _)| *i == id) }
pub fn log_pool_len(log: &Log) -> usize { log.log_pool.read().len() }

pub fn mk_log(sync: bool, appending: Option<Appending>) -> Log {
	Log {
		overlays: RwLock::new(LogOverlays::with_columns(0)),
		appending: RwLock::new(appending),
		reading: RwLock::new(None),
		read_queue: RwLock::default(),
		next_record_id: AtomicU64::new(1),
		dirty: AtomicBool::new(true),
		log_pool: RwLock::default(),
		cleanup_queue: RwLock::default(),
		replay_queue: RwLock::default(),
		path: std::path::PathBuf::new(),
		next_log_id: AtomicU32::new(0),
		sync,
	}
}

/// C12.O1: `flush_one` hands a log file over to the reader queue only after `sync_data` succeeded on it.
crate::verif_env! {
#[kani::proof]
#[kani::unwind(6)]
#[kani::stub(std::fs::File::sync_data, stub_sync_data)]
#[kani::stub(std::fs::File::try_clone, stub_try_clone)]
#[kani::stub(<std::os::fd::OwnedFd as std::ops::Drop>::drop, crate::verif_common::fd_drop_noop)]
fn c12_o1_flush_one_syncs_before_handover() {
	fev_reset();
	let sync: bool = kani::any();
	let size: u64 = kani::any();
	let min: u64 = kani::any();
	unsafe { FAIL_SYNC_DATA = kani::any(); }
	let log = mk_log(sync, Some(Appending { id: 7, file: std::io::BufWriter::with_capacity(0, vc::raw_file(5)), size }));
	unsafe { LOG_PTR = &log as *const Log; QUEUED_AT_SYNC = 99; }
	let r = log.flush_one(min);
	unsafe { LOG_PTR = std::ptr::null(); }
	let queued = log.read_queue.read().len();
	let n = unsafe { FEV_N };
	let synced_ok = n >= 1 && unsafe { FEV[0] } == (1, 5);
	if n >= 1 { assert!(unsafe { QUEUED_AT_SYNC } == 0, "C12.O1 the file is not visible to the reader while it is being synced"); }
	match &r {
		Ok(true) => {
			assert!(size > min, "C12.O1 flushed only above the threshold");
			assert!(queued == 1, "C12.O1 exactly one file handed over");
			assert!(log.read_queue.read().front().map(|(id, _)| *id) == Some(7), "C12.O1 the appending file is the one handed over");
			if sync { assert!(synced_ok, "C12.O1 sync_data succeeded before hand-over"); }
			assert!(log.appending.read().is_none(), "C12.O1 writer detached");
		},
		Ok(false) => { assert!(size <= min && queued == 0 && n == 0, "C12.O1 nothing happens below the threshold"); },
		Err(_) => {
			assert!(queued == 0, "C12.O1 nothing handed over when sync fails");
			assert!(sync && unsafe { FAIL_SYNC_DATA }, "C12.O1 error only from a failed sync");
		},
	}
	kani::cover!(matches!(r, Ok(true)) && sync);
	kani::cover!(r.is_err());
	std::mem::forget(r);
	std::mem::forget(log);
}
}

/// C12.O2: `read_next` takes log files only from the reader queue (files that went through flush_one) or the
/// already active reader; it never opens the appending file. With O1 this gives "applied only after synced".
fn read_next_case(file_len: usize) {
	fev_reset();
	unsafe { BUF = kani::any(); LEN = file_len; POS = 0; }
	let has_appending: bool = kani::any();
	let queued: bool = kani::any();
	let log = mk_log(true, if has_appending { Some(Appending { id: 9, file: std::io::BufWriter::with_capacity(0, vc::raw_file(5)), size: 100 }) } else { None });
	if queued { log.read_queue.write().push_back((4, vc::raw_file(6))); }
	let validate: bool = kani::any();
	let r = log.read_next(validate);
	match &r {
		Ok(Some(reader)) => {
			assert!(queued, "C12.O2 a reader exists only for a file from the read queue");
			assert!(reader.reading.as_ref().map(|x| x.id) == Some(4), "C12.O2 the reader reads the queued file");
			assert!(unsafe { BUF[0] } == 1, "C12.O2 a record starts with BeginRecord");
		},
		Ok(None) => {
			// an exhausted file goes to cleanup, never back to the read queue
			if queued { assert!(log.cleanup_queue.read().len() == 1 && log.read_queue.read().len() == 0, "C12.O2 exhausted log file is queued for cleanup"); }
		},
		Err(_) => { assert!(queued, "C12.O2 errors only from reading a queued file"); },
	}
	assert!(log.appending.read().is_some() == has_appending, "C12.O2 the appending file is never touched by the reader");
	if has_appending { assert!(log.appending.read().as_ref().map(|a| a.id) == Some(9), "C12.O2 appending unchanged"); }
	kani::cover!(if file_len > 0 { matches!(r, Ok(Some(_))) } else { matches!(r, Ok(None)) && queued });
	std::mem::forget(r);
	std::mem::forget(log);
}

macro_rules! c12_o2 {
	($name:ident, $len:expr) => {
		crate::verif_env! {
			#[kani::proof]
			#[kani::unwind(50)]
			#[kani::stub(<std::fs::File as std::io::Read>::read, stub_file_read)]
			#[kani::stub(<std::fs::File as std::io::Read>::read_buf, stub_file_read_buf)]
			#[kani::stub(<std::fs::File as std::io::Seek>::seek, stub_file_seek)]
			#[kani::stub(crc32fast::Hasher::internal_new_specialized, crate::verif_common::no_specialized_crc)]
			#[kani::stub(<std::os::fd::OwnedFd as std::ops::Drop>::drop, crate::verif_common::fd_drop_noop)]
			fn $name() { read_next_case($len) }
		}
	};
}
c12_o2!(c12_o2_read_next_only_from_read_queue, 12);
c12_o2!(c12_o2_read_next_exhausted_file, 0);

/// C12.O3a: `Log::clean_logs` truncates only files taken from the cleanup queue, in order, each truncation
/// (rewind, set_len(0)) followed by sync_all before the file can enter the pool; a failure stops before the pool.
fn clean_logs_case(nq: usize, max: usize) {
	fev_reset();
	unsafe { FAIL_SYNC_ALL = kani::any(); FAIL_SET_LEN = kani::any(); }
	let log = mk_log(true, Some(Appending { id: 9, file: std::io::BufWriter::with_capacity(0, vc::raw_file(5)), size: 100 }));
	log.read_queue.write().push_back((4, vc::raw_file(6)));
	if nq >= 1 { log.cleanup_queue.write().push_back((1, vc::raw_file(11))); }
	if nq >= 2 { log.cleanup_queue.write().push_back((2, vc::raw_file(12))); }
	let r = log.clean_logs(max);
	let n = unsafe { FEV_N };
	let expect = if max < nq { max } else { nq };
	// every truncation is on a cleanup-queue file and is followed by a sync_all on the same file
	let mut i = 0;
	let mut truncated = 0;
	while i < FE_MAX {
		if i < n {
			let (k, fd) = unsafe { FEV[i] };
			assert!(fd == 11 || fd == 12, "C12.O3 only files from the cleanup queue are touched");
			if k == 3 {
				truncated += 1;
				assert!(i + 1 < n && (unsafe { FEV[i + 1] } == (4, fd) || unsafe { FEV[i + 1] } == (5, fd)), "C12.O3 truncation is followed by sync_all on that file");
			}
		}
		i += 1;
	}
	match &r {
		Ok(more) => {
			assert!(truncated == expect, "C12.O3 truncates min(max_count, queued) files");
			assert!(log.log_pool.read().len() == expect, "C12.O3 cleaned files enter the pool");
			assert!(*more == (nq > expect), "C12.O3 reports remaining dirty logs");
			assert!(log.cleanup_queue.read().len() == nq - expect, "C12.O3 queue shrinks by the cleaned count");
		},
		Err(_) => {
			assert!(unsafe { FAIL_SYNC_ALL || FAIL_SET_LEN }, "C12.O3 error only from a failed file operation");
			assert!(log.log_pool.read().len() == 0, "C12.O3 nothing enters the pool when truncation or sync failed");
		},
	}
	assert!(log.read_queue.read().len() == 1 && log.appending.read().is_some(), "C12.O3 unread and appending logs are never cleaned");
	kani::cover!(r.is_ok());
	kani::cover!(r.is_err() || expect == 0);
	std::mem::forget(r);
	std::mem::forget(log);
}

macro_rules! c12_clean {
	($name:ident, $nq:expr, $max:expr) => {
		crate::verif_env! {
			#[kani::proof]
			#[kani::unwind(26)]
			#[kani::stub(<std::fs::File as std::io::Seek>::seek, stub_file_seek)]
			#[kani::stub(std::fs::File::set_len, stub_set_len)]
			#[kani::stub(std::fs::File::sync_all, stub_sync_all)]
			#[kani::stub(<std::os::fd::OwnedFd as std::ops::Drop>::drop, crate::verif_common::fd_drop_noop)]
			fn $name() { clean_logs_case($nq, $max) }
		}
	};
}
c12_clean!(c12_o3a_clean_logs_q0_m1, 0, 1);
c12_clean!(c12_o3a_clean_logs_q1_m0, 1, 0);
c12_clean!(c12_o3a_clean_logs_q1_m1, 1, 1);
c12_clean!(c12_o3a_clean_logs_q2_m1, 2, 1);
c12_clean!(c12_o3a_clean_logs_q2_m2, 2, 2);
c12_clean!(c12_o3a_clean_logs_q2_m3, 2, 3);

// =====================================================================================
// C13.P2: validate_plan / enact_plan on arbitrary payloads (reader-level stub: length accounting)
// =====================================================================================
pub static mut WR_N: usize = 0;
pub static mut WR_OFF: [u64; 4] = [0; 4];
pub static mut WR_LEN: [usize; 4] = [0; 4];
pub fn stub_write_at_track(_f: &crate::file::TableFile, buf: &[u8], offset: u64) -> Result<()> {
	unsafe { if WR_N < 4 { WR_OFF[WR_N] = offset; WR_LEN[WR_N] = buf.len(); } WR_N += 1; }
	Ok(())
}

fn validate_enact_case(entry_size: u16) {
	let head: [u8; 16] = kani::any();
	let avail: usize = kani::any();
	kani::assume(avail <= 0x8100);
	let multipart: bool = kani::any();
	let t = crate::table::verif_kani::mk(ValueTableId::new(0, 0), entry_size, multipart, kani::any(), 8);
	let index: u64 = kani::any();
	kani::assume(index < 8);
	let lock = reading_at(3);
	rd_reset(head, avail);
	let v = {
		let mut r = reader_for_tables(&lock, true);
		let v = t.validate_plan(index, &mut r);
		assert!(r.read_bytes() as usize == unsafe { RD_POS }, "C13.P2 byte accounting");
		std::mem::forget(r);
		v
	};
	let consumed_v = unsafe { RD_POS };
	let ok = v.is_ok();
	kani::cover!(ok && index != 0 && consumed_v > 12);
	kani::cover!(!ok);
	if ok {
		assert!(consumed_v <= if index == 0 { 16 } else { entry_size as usize }, "C13.P2 a validated entry never exceeds its slot");
		rd_reset(head, avail);
		unsafe { WR_N = 0; }
		let lock2 = reading_at(4);
		let mut r2 = reader_for_tables(&lock2, false);
		let e = t.enact_plan(index, &mut r2);
		assert!(e.is_ok(), "C13.P2 a validated payload can be enacted");
		assert!(unsafe { RD_POS } == consumed_v, "C13.P2 enact consumes exactly the bytes validate consumed");
		assert!(unsafe { WR_N } == 1, "C13.P2 one table write per entry");
		let off = unsafe { WR_OFF[0] };
		let len = unsafe { WR_LEN[0] } as u64;
		assert!(off == index * entry_size as u64, "C13.P2 write starts at the slot");
		assert!(len <= if index == 0 { 16 } else { entry_size as u64 }, "C13.P2 write stays inside the slot");
		std::mem::forget(e); std::mem::forget(r2); std::mem::forget(lock2);
	}
	std::mem::forget(v);
	std::mem::forget(lock); std::mem::forget(t);
}

crate::verif_env! {
#[kani::proof]
#[kani::unwind(20)]
#[kani::stub(crate::log::LogReader::read, stub_reader_read)]
#[kani::stub(crate::file::TableFile::write_at, stub_write_at_track)]
#[kani::stub(crate::file::TableFile::grow, crate::file::verif_kani::stub_grow)]
#[kani::stub(crc32fast::Hasher::internal_new_specialized, crate::verif_common::no_specialized_crc)]
fn c13_p2_value_validate_enact_e64() { validate_enact_case(64) }
}
crate::verif_env! {
#[kani::proof]
#[kani::unwind(20)]
#[kani::stub(crate::log::LogReader::read, stub_reader_read)]
#[kani::stub(crate::file::TableFile::write_at, stub_write_at_track)]
#[kani::stub(crate::file::TableFile::grow, crate::file::verif_kani::stub_grow)]
#[kani::stub(crc32fast::Hasher::internal_new_specialized, crate::verif_common::no_specialized_crc)]
fn c13_p2_value_validate_enact_e4096() { validate_enact_case(4096) }
}

/// Log without private types in the signature (for harnesses of other modules).
pub fn mk_log_plain(sync: bool) -> Log { mk_log(sync, None) }


/// C13.R1: after a rejected record, clear_replay_logs leaves nothing to replay: the active reader's file and every
/// queued replay file move to the cleanup queue (they are truncated before reuse, so a later open cannot pick them up),
/// and the log overlays are emptied.
fn clear_replay_case(nq: usize, has_reader: bool) {
	let log = mk_log(true, None);
	if has_reader { *log.reading.write() = Some(Reading { id: 3, file: std::io::BufReader::with_capacity(0, vc::raw_file(13)) }); }
	if nq >= 1 { log.replay_queue.write().push_back((4, 10, vc::raw_file(14))); }
	if nq >= 2 { log.replay_queue.write().push_back((5, 11, vc::raw_file(15))); }
	log.clear_replay_logs();
	assert!(log.replay_queue.read().len() == 0, "C13.R1 nothing after the first invalid record stays queued for replay");
	assert!(log.reading.read().is_none(), "C13.R1 active reader dropped");
	let cq = log.cleanup_queue.read();
	assert!(cq.len() == nq + if has_reader { 1 } else { 0 }, "C13.R1 every discarded log file is queued for truncation");
	if nq == 2 { assert!(cq[cq.len() - 1].0 == 5 && cq[cq.len() - 2].0 == 4, "C13.R1 discarded files keep their ids"); }
	assert!(!log.dirty.load(Ordering::Relaxed), "C13.R1 log marked clean");
	std::mem::forget(cq);
	std::mem::forget(log);
}
crate::verif_env! {
#[kani::proof]
#[kani::unwind(8)]
#[kani::stub(<std::os::fd::OwnedFd as std::ops::Drop>::drop, crate::verif_common::fd_drop_noop)]
fn c13_r1_clear_replay_logs_discards_everything() {
	let which: u8 = kani::any();
	kani::assume(which < 4);
	if which == 0 { clear_replay_case(2, true); }
	if which == 1 { clear_replay_case(2, false); }
	if which == 2 { clear_replay_case(1, true); }
	if which == 3 { clear_replay_case(0, false); }
}
}



// ---- helpers for harnesses of other modules (no private types in signatures) ----
/// Symbolic log content of at most `max` bytes (symbolic logical length); returns the length.
pub fn log_set_any(max: usize) -> usize {
	unsafe { BUF = kani::any(); LEN = kani::any(); kani::assume(LEN <= max); POS = 0; LEN }
}
/// A log file holding exactly one minimal record: BeginRecord(id: symbolic) EndRecord(checksum: symbolic).
/// The stored checksum is the correct one (the CRC gate itself is C13.P1b): an Error value created and dropped on the
/// mismatch path sends CBMC through the drop glue of io::Error's boxed dyn payload (minutes), and P3 is about the
/// record-sequence gate.
pub fn log_set_minimal_record() -> usize {
	unsafe {
		BUF = kani::any(); BUF[0] = 1; BUF[9] = 4; LEN = 14; POS = 0;
		let mut h = crc32fast::Hasher::new();
		h.update(&BUF[..10]);
		let c = h.finalize().to_le_bytes();
		BUF[10] = c[0]; BUF[11] = c[1]; BUF[12] = c[2]; BUF[13] = c[3];
		LEN
	}
}
pub fn log_bytes() -> [u8; LOG_BYTES] { unsafe { BUF } }
/// Arbitrary log bytes, concrete logical length (truncation offset enumerated by the harness family).
pub fn log_set_next_record_id(log: &Log, id: u64) { log.next_record_id.store(id, Ordering::Relaxed); }
pub fn log_next_record_id(log: &Log) -> u64 { log.next_record_id.load(Ordering::Relaxed) }
pub fn log_poke(i: usize, v: u8) { unsafe { BUF[i] = v; } }
pub fn log_set_len(n: usize) { unsafe { BUF = kani::any(); LEN = n; POS = 0; } }
pub fn log_attach_reader(log: &Log, fd: i32) { *log.reading.write() = Some(Reading { id: 0, file: std::io::BufReader::with_capacity(0, vc::raw_file(fd)) }); }
pub fn log_queue_replay(log: &Log, id: u32, record: u64) { log.replay_queue.write().push_back((id, record, vc::raw_file(20))); }
pub fn log_replay_len(log: &Log) -> usize { log.replay_queue.read().len() }
/// Seek model for LogReader::reset (SeekFrom::Current(-read_bytes)) over the static buffer.
pub fn stub_file_seek_back(_f: &mut std::fs::File, pos: std::io::SeekFrom) -> std::io::Result<u64> {
	unsafe {
		match pos {
			std::io::SeekFrom::Current(d) => { let np = POS as i64 + d; assert!(np >= 0, "seek before the start of the log"); POS = np as usize; },
			std::io::SeekFrom::Start(p) => { POS = p as usize; },
			std::io::SeekFrom::End(_) => panic!("unexpected seek from end"),
		}
		Ok(POS as u64)
	}
}

// =====================================================================================
// C13.P2i: index / ref-count page actions: validation bounds the page number by the table size and consumes
// exactly mask + 8 bytes (16 for ref counts) per set mask bit, like skip_plan does
// =====================================================================================
fn index_validate_case(bits: u8) {
	let mut head: [u8; 16] = kani::any();
	// the mask is built from three symbolic bit positions (a 64-bit popcount against the code's clear-lowest-bit loop is
	// an equivalence SAT solvers are notoriously bad at: the unconstrained version did not finish in 20 minutes)
	let (b0, b1, b2): (u8, u8, u8) = (kani::any(), kani::any(), kani::any());
	kani::assume(b0 < 64 && b1 < 64 && b2 < 64);
	let none: bool = kani::any();
	let m: u64 = if none { 0 } else { (1u64 << b0) | (1u64 << b1) | (1u64 << b2) };
	let mb = m.to_le_bytes();
	let mut k = 0; while k < 8 { head[k] = mb[k]; k += 1; }
	let distinct: usize = if none { 0 } else { 1 + if b1 != b0 { 1 } else { 0 } + if b2 != b0 && b2 != b1 { 1 } else { 0 } };
	let avail: usize = kani::any();
	kani::assume(avail <= 0x400);
	let t = crate::index::verif_kani::table(bits);
	let index: u64 = kani::any();
	let lock = reading_at(3);
	rd_reset(head, avail);
	let mut r = reader_for_tables(&lock, true);
	let v = t.validate_plan(index, &mut r);
	let consumed = unsafe { RD_POS };
	let mask = u64::from_le_bytes([head[0], head[1], head[2], head[3], head[4], head[5], head[6], head[7]]);
	if v.is_ok() {
		assert!(index < (1u64 << bits), "C13.P2 a validated index page lies inside the table file");
		assert!(consumed == 8 + 8 * distinct, "C13.P2 index action consumes the mask and one entry per set bit");
		assert!(consumed <= avail, "C13.P2 never reads past the record");
		// skip_plan (used by the apply pass for dropped tables) consumes the same bytes
		rd_reset(head, avail);
		let lock2 = reading_at(4);
		let mut r2 = reader_for_tables(&lock2, false);
		let s = crate::index::IndexTable::skip_plan(&mut r2);
		assert!(s.is_ok() && unsafe { RD_POS } == consumed, "C13.P2 skip_plan consumes exactly what validate_plan consumed");
		std::mem::forget(s); std::mem::forget(r2); std::mem::forget(lock2);
	}
	let _ = mask;
	kani::cover!(v.is_ok() && distinct == 3);
	kani::cover!(v.is_err() && index >= (1u64 << bits));
	std::mem::forget(v); std::mem::forget(r); std::mem::forget(lock); std::mem::forget(t);
}

macro_rules! c13_p2i {
	($name:ident, $bits:expr) => {
		crate::verif_env! {
			#[kani::proof]
			#[kani::unwind(66)]
			#[kani::stub(crate::log::LogReader::read, stub_reader_read)]
			#[kani::stub(crc32fast::Hasher::internal_new_specialized, crate::verif_common::no_specialized_crc)]
			fn $name() { index_validate_case($bits) }
		}
	};
}
c13_p2i!(c13_p2i_index_validate_b16, 16);
c13_p2i!(c13_p2i_index_validate_b20, 20);
