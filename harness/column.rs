//! Harnesses for src/column.rs: C01.K1 (hash_key), C10.N1 (node decoding), C06.S1b (tier selection through
//! Column::compress), C07.R2 (operation dispatch on an existing value).
#![allow(dead_code, unused_imports, static_mut_refs)]
use super::*;
use crate::file::verif_kani as vf;
use crate::log::verif_kani as vl;
use crate::table::verif_kani as vt;
use crate::verif_common as vc;

pub fn sizes() -> [u16; SIZE_TIERS - 1] { SIZES }

/// Miniature hash column (plain build): 3 value tables {32, 64, multipart 64}, an index without file, no ref counts.
/// Backing store for the column's `Vec<ValueTable>` and reindex queue: typed statics instead of heap allocations.
/// CBMC reads fields of heap-allocated objects (byte arrays) through byte extraction and loses their constants
/// (entry_size, multipart, index_bits ...), which turns every loop that depends on them symbolic; a Vec built with
/// from_raw_parts over a typed static keeps them. The Vecs are never grown or dropped (columns are forgotten).
pub static mut VT_STORE: std::mem::MaybeUninit<[ValueTable; 3]> = std::mem::MaybeUninit::uninit();
pub static mut RQ_STORE: std::mem::MaybeUninit<[ReindexEntry; 2]> = std::mem::MaybeUninit::uninit();
pub fn static_tables(t: [ValueTable; 3]) -> Vec<ValueTable> {
	unsafe { VT_STORE.as_mut_ptr().write(t); Vec::from_raw_parts(VT_STORE.as_mut_ptr() as *mut ValueTable, 3, 3) }
}
pub fn static_queue(q: [ReindexEntry; 2]) -> VecDeque<ReindexEntry> {
	unsafe { RQ_STORE.as_mut_ptr().write(q); VecDeque::from(Vec::from_raw_parts(RQ_STORE.as_mut_ptr() as *mut ReindexEntry, 2, 2)) }
}

pub fn mini_plain(ref_counted: bool) -> HashColumn {
	let value = static_tables([
		vt::mk(ValueTableId::new(0, 0), 32, false, ref_counted, 8),
		vt::mk(ValueTableId::new(0, 1), 64, false, ref_counted, 8),
		vt::mk(ValueTableId::new(0, 2), 64, true, ref_counted, 8),
	]);
	HashColumn {
		col: 0,
		tables: RwLock::new(Tables { index: crate::index::verif_kani::table(16), value, ref_count: None }),
		reindex: RwLock::new(Reindex { queue: VecDeque::new(), progress: AtomicU64::new(0) }),
		ref_count_cache: None,
		path: PathBuf::new(),
		preimage: ref_counted,
		uniform_keys: true,
		collect_stats: false,
		ref_counted,
		append_only: false,
		salt: [0u8; 32],
		stats: crate::stats::verif_kani::tiny(),
		compression: Compress::new(crate::compress::CompressionType::NoCompression, u32::MAX),
		db_version: crate::options::CURRENT_VERSION,
	}
}
pub fn mini_plain_column(ref_counted: bool) -> Column { Column::Hash(mini_plain(ref_counted)) }

// =====================================================================================
// C01.K1: hash_key is total on every admitted key
// =====================================================================================
fn hash_key_uniform_case(len: usize) {
	let buf: [u8; 48] = kani::any();
	let salt: Salt = kani::any();
	kani::assume(salt[0] != 0); // a zero salt selects a cfg(test)-only shortcut in native (test profile) replays
	let k = hash_key(&buf[..len], &salt, true, crate::options::CURRENT_VERSION);
	let i: usize = kani::any();
	kani::assume(i >= 16 && i < 32);
	assert!(k[i] == buf[i], "C01.K1 bytes 16..32 of a uniform key are kept");
	// the first 16 bytes are SipHash-1-3 (keyed by the salt) of the WHOLE key: keys that differ anywhere differ in what is hashed
	use siphasher::sip128::Hasher128;
	use std::hash::Hasher;
	let mut h = siphasher::sip128::SipHasher13::new_with_key(salt[..16].try_into().unwrap());
	h.write(&buf[..len]);
	let hash = h.finish128();
	let a = hash.h1.to_le_bytes();
	let b = hash.h2.to_le_bytes();
	let j: usize = kani::any();
	kani::assume(j < 8);
	assert!(k[j] == a[j] && k[8 + j] == b[j], "C01.K1 first 16 bytes hash the whole key");
}

macro_rules! c01_k1_uniform {
	($name:ident, [$($l:expr),*]) => {
		#[kani::proof]
		#[kani::unwind(50)]
		fn $name() {
			const L: &[usize] = &[$($l),*];
			let s: usize = kani::any();
			kani::assume(s < L.len());
			let mut c = 0;
			while c < L.len() { if c == s { hash_key_uniform_case(L[c]); } c += 1; }
		}
	};
}
c01_k1_uniform!(c01_k1_hash_key_uniform_32_36, [32, 33, 34, 35, 36]);
c01_k1_uniform!(c01_k1_hash_key_uniform_37_48, [37, 39, 40, 41, 47, 48]);

/// Older on-disk versions (<= 5: copy, 6..7: xor with salt) take the first 32 bytes.
#[kani::proof]
#[kani::unwind(50)]
fn c01_k1_hash_key_uniform_old_versions() {
	let buf: [u8; 40] = kani::any();
	let salt: Salt = kani::any();
	let len: usize = kani::any();
	kani::assume(len >= 32 && len <= 40);
	let v: u32 = kani::any();
	kani::assume(v >= 4 && v <= 7);
	let k = hash_key(&buf[..len], &salt, true, v);
	let i: usize = kani::any();
	kani::assume(i < 32);
	if v <= 5 { assert!(k[i] == buf[i], "C01.K1 v<=5 uniform keys are used verbatim"); } else { assert!(k[i] == buf[i] ^ salt[i], "C01.K1 v6-7 uniform keys are xored with the salt"); }
}

/// Hashed (non-uniform) keys of any length 0..=40: Blake2b MAC never panics and is a function of (key, salt).
fn hash_key_hashed_case(len: usize) {
	let buf: [u8; 40] = kani::any();
	let salt: Salt = kani::any();
	let k1 = hash_key(&buf[..len], &salt, false, crate::options::CURRENT_VERSION);
	kani::cover!(k1[0] != 0);
	std::mem::forget(k1);
}
#[kani::proof]
#[kani::unwind(140)]
fn c01_k1_hash_key_hashed_total() {
	const L: &[usize] = &[0, 1, 31, 32, 33, 40];
	let s: usize = kani::any();
	kani::assume(s < L.len());
	let mut c = 0;
	while c < L.len() { if c == s { hash_key_hashed_case(L[c]); } c += 1; }
}

// =====================================================================================
// C10.N1: node decoding is total and inverts packing
// =====================================================================================
fn unpack_case(l: usize, count: u8) {
	let mut buf: [u8; 40] = kani::any();
	if l > 0 { buf[l - 1] = count; }
	let data = buf[..l].to_vec();
	let r = unpack_node_data(data.clone());
	let c = unpack_node_children(&data);
	let fits = l >= 1 && (count as usize) * 8 + 1 <= l;
	match (r, c) {
		(Ok((d, ch)), Ok(ch2)) => {
			assert!(fits, "C10.N1 decoding succeeds only if the children fit");
			assert!(ch.len() == count as usize && ch2.len() == count as usize, "C10.N1 child count is the trailing byte");
			assert!(d.len() + ch.len() * 8 + 1 == l, "C10.N1 data ++ children ++ count is the whole input");
			assert!(packed_node_size(&d, count) == l, "C10.N1 packed_node_size inverts");
			if d.len() > 0 {
				let i: usize = kani::any();
				kani::assume(i < d.len());
				assert!(d[i] == buf[i], "C10.N1 data bytes are the prefix");
			}
			if ch.len() > 0 {
				let j: usize = kani::any();
				kani::assume(j < ch.len());
				let o = d.len() + j * 8;
				let want = u64::from_le_bytes([buf[o], buf[o + 1], buf[o + 2], buf[o + 3], buf[o + 4], buf[o + 5], buf[o + 6], buf[o + 7]]);
				assert!(ch[j] == want && ch2[j] == want, "C10.N1 children are the little-endian addresses in order");
			}
			std::mem::forget(d); std::mem::forget(ch); std::mem::forget(ch2);
		},
		(Err(_), Err(_)) => { assert!(!fits, "C10.N1 a well-formed node is never rejected"); },
		_ => assert!(false, "C10.N1 both decoders agree"),
	}
	std::mem::forget(data);
}

macro_rules! c10_n1 {
	($name:ident, [$(($l:expr, $c:expr)),*]) => {
		#[kani::proof]
		#[kani::unwind(42)]
		#[kani::stub(alloc::fmt::format, crate::verif_common::fmt_stub)]
		fn $name() {
			const L: &[(usize, u8)] = &[$(($l, $c)),*];
			let s: usize = kani::any();
			kani::assume(s < L.len());
			let mut c = 0;
			while c < L.len() { if c == s { unpack_case(L[c].0, L[c].1); } c += 1; }
		}
	};
}
// one harness per (length, trailing count byte) pair: the decoders read the count back from a heap vector, so their
// loops are unrolled to the bound with symbolic guards (about 1-3 minutes per pair)
c10_n1!(c10_n1_unpack_l0_c0, [(0, 0)]);
c10_n1!(c10_n1_unpack_l1_c0, [(1, 0)]);
c10_n1!(c10_n1_unpack_l1_c1, [(1, 1)]);
c10_n1!(c10_n1_unpack_l8_c1, [(8, 1)]);
c10_n1!(c10_n1_unpack_l9_c1, [(9, 1)]);
c10_n1!(c10_n1_unpack_l10_c1, [(10, 1)]);
c10_n1!(c10_n1_unpack_l16_c2, [(16, 2)]);
c10_n1!(c10_n1_unpack_l17_c2, [(17, 2)]);
c10_n1!(c10_n1_unpack_l18_c2, [(18, 2)]);
c10_n1!(c10_n1_unpack_l5_c0, [(5, 0)]);
c10_n1!(c10_n1_unpack_l25_c3, [(25, 3)]);
c10_n1!(c10_n1_unpack_l24_c3, [(24, 3)]);
c10_n1!(c10_n1_unpack_l26_c3, [(26, 3)]);
c10_n1!(c10_n1_unpack_l33_c4, [(33, 4)]);
c10_n1!(c10_n1_unpack_l40_c4, [(40, 4)]);
c10_n1!(c10_n1_unpack_l40_c5, [(40, 5)]);
c10_n1!(c10_n1_unpack_l40_c0, [(40, 0)]);
c10_n1!(c10_n1_unpack_l3_c255, [(3, 255)]);
c10_n1!(c10_n1_unpack_l40_c255, [(40, 255)]);
c10_n1!(c10_n1_unpack_l40_c128, [(40, 128)]);

// =====================================================================================
// C06.S1b: tier selection by Column::compress (codec replaced by a model returning any shorter/longer output)
// =====================================================================================
pub static mut CODEC_OUT_LEN: usize = 0;
pub static mut CODEC_CALLS: usize = 0;
/// Model of a codec: output of a harness-chosen length (content irrelevant to tier selection).
pub fn stub_compress(_c: &Compress, _buf: &[u8]) -> Vec<u8> {
	unsafe { CODEC_CALLS += 1; }
	let n = unsafe { CODEC_OUT_LEN };
	let mut v = Vec::with_capacity(n);
	let mut k = 0;
	while k < n { v.push(0u8); k += 1; }
	v
}

fn three_tables(rc: bool) -> [ValueTable; 3] {
	[
		vt::mk(ValueTableId::new(0, 0), 32, false, rc, 8),
		vt::mk(ValueTableId::new(0, 1), 64, false, rc, 8),
		vt::mk(ValueTableId::new(0, 2), 64, true, rc, 8),
	]
}

fn spec_tier(len: usize, key: &TableKey, rc: bool) -> usize {
	let k = key.encoded_size() + if rc { 4 } else { 0 } + 2;
	if 32 >= k && len <= 32 - k { 0 } else if 64 >= k && len <= 64 - k { 1 } else { 2 }
}

fn compress_case(len: usize, out_len: usize) {
	let rc: bool = kani::any();
	let partial: bool = kani::any();
	let tables = three_tables(rc);
	let key = if partial { TableKey::Partial(kani::any()) } else { TableKey::NoHash };
	let threshold: u32 = kani::any();
	let c = Compress::new(crate::compress::CompressionType::NoCompression, threshold);
	unsafe { CODEC_OUT_LEN = out_len; CODEC_CALLS = 0; }
	let buf = [0u8; 100];
	let (cv, tier) = Column::compress(&c, &key, &buf[..len], &tables);
	let calls = unsafe { CODEC_CALLS };
	assert!(calls == if len > threshold as usize { 1 } else { 0 }, "C06.S1 the codec runs only above the threshold");
	match &cv {
		Some(v) => {
			assert!(calls == 1 && v.len() == out_len && out_len < len, "C06.S1 compressed form kept only if strictly smaller");
			assert!(tier == spec_tier(out_len, &key, rc), "C06.S1 tier is the smallest one fitting the stored (compressed) bytes");
		},
		None => {
			assert!(calls == 0 || out_len >= len, "C06.S1 compressed form is used when smaller");
			assert!(tier == spec_tier(len, &key, rc), "C06.S1 tier is the smallest one fitting the value");
		},
	}
	kani::cover!(cv.is_some() && tier == 0);
	kani::cover!(cv.is_none() && tier == 2);
	std::mem::forget(cv);
	std::mem::forget(tables);
}

macro_rules! c06_s1b {
	($name:ident, [$(($l:expr, $o:expr)),*]) => {
		#[kani::proof]
		#[kani::unwind(102)]
		#[kani::stub(crate::compress::Compress::compress, stub_compress)]
		fn $name() {
			const L: &[(usize, usize)] = &[$(($l, $o)),*];
			let s: usize = kani::any();
			kani::assume(s < L.len());
			let mut c = 0;
			while c < L.len() { if c == s { compress_case(L[c].0, L[c].1); } c += 1; }
		}
	};
}
// boundaries: tier 0 fits 30 (NoHash) / 4 (Partial) / 26,0 with rc; tier 1 fits 62 / 36 / 58, 32
c06_s1b!(c06_s1b_compress_tier_a, [(0, 0), (4, 3), (5, 4), (5, 5), (30, 29), (31, 30), (31, 31), (36, 4), (37, 36), (37, 5)]);
c06_s1b!(c06_s1b_compress_tier_b, [(62, 30), (63, 62), (63, 31), (63, 63), (96, 4), (96, 37), (96, 63), (96, 95), (26, 0), (33, 32)]);

// =====================================================================================
// C07.R2: dispatch of the six operations on an existing value (Column::write_existing_value_plan)
// =====================================================================================
fn dispatch_case(op: u8) { dispatch_case2(op, kani::any(), kani::any()) }

fn dispatch_case2(op: u8, rc_col: bool, preimage: bool) {
	const E: usize = 64;
	let tables = [vt::mk(ValueTableId::new(0, 0), 32, false, rc_col, 8), vt::mk(ValueTableId::new(0, 1), E as u16, false, rc_col, 8), vt::mk(ValueTableId::new(0, 2), E as u16, true, rc_col, 8)];
	vt::set_filled(&tables[1], 3);
	let overlays = vl::new_overlays();
	let mut w = LogWriter::new(&overlays, 1);
	let keyb: Key = kani::any();
	let key = TableKey::Partial(keyb);
	// existing entry at tier 1 slot 1: [size][rc?][key tail 26][value 8]
	let rc: u32 = kani::any();
	kani::assume(rc >= 1);
	let val: [u8; 8] = kani::any();
	let mut e = [0u8; E];
	let hdr = if rc_col { 6 } else { 2 };
	let total = hdr - 2 + 26 + 8;
	e[0] = total as u8;
	if rc_col { let b = rc.to_le_bytes(); let mut k = 0; while k < 4 { e[2 + k] = b[k]; k += 1; } }
	let mut k = 0; while k < 26 { e[hdr + k] = keyb[6 + k]; k += 1; }
	let mut k = 0; while k < 8 { e[hdr + 26 + k] = val[k]; k += 1; }
	vf::disk_put(vt::file_of(&tables[1]), E, &e[..2 + total]);
	let address = Address::new(1, 1);
	let compression = Compress::new(crate::compress::CompressionType::NoCompression, u32::MAX);
	let tref = TablesRef { tables: &tables, compression: &compression, col: 0, preimage, ref_counted: rc_col };
	let newv: [u8; 8] = kani::any();
	// value type [u8; 8]: its length is a type-level constant (a Vec's length stored inside the enum is not a constant
	// for symbolic execution and would flow into slice lengths)
	let change: Operation<Key, [u8; 8]> = match op {
		0 => Operation::Set(keyb, newv),
		1 => Operation::Reference(keyb),
		2 => Operation::Dereference(keyb),
		3 => Operation::ReferenceTree(keyb),
		4 => Operation::DereferenceTree(keyb),
		_ => Operation::InsertTree(keyb, crate::multitree::NewNode { data: Vec::new(), children: Vec::new() }),
	};
	let r = Column::write_existing_value_plan(&key, tref, address, &change, &mut w, None, rc_col);
	let mut out = [0u8; E];
	let logged = vl::rec_get(&w, tables[1].id, 1, &mut out);
	let new_rc = u32::from_le_bytes([out[2], out[3], out[4], out[5]]);
	let bumped = if rc >= u32::MAX - 1 { u32::MAX } else { rc + 1 };
	match op {
		0 => {
			let (o, a) = r.unwrap();
			assert!(a.is_none(), "C07.R2 same-tier set does not move the value");
			if rc_col {
				assert!(matches!(o, Some(PlanOutcome::Written)) && logged && new_rc == bumped, "C07.R2 Set on an existing key of a counted column increments");
				let i: usize = kani::any(); kani::assume(i < 8);
				assert!(out[6 + 26 + i] == val[i], "C07.R2 Set on a counted column never rewrites the value");
			} else if preimage {
				assert!(matches!(o, Some(PlanOutcome::Skipped)) && !logged, "C07.R2 preimage columns skip replacement");
			} else {
				assert!(matches!(o, Some(PlanOutcome::Written)) && logged, "C07.R2 Set replaces in place");
				let i: usize = kani::any(); kani::assume(i < 8);
				assert!(out[2 + 26 + i] == newv[i], "C07.R2 replaced value bytes");
			}
		},
		1 => {
			let (o, a) = r.unwrap();
			assert!(a.is_none(), "C07.R2 reference never moves the value");
			if rc_col { assert!(matches!(o, Some(PlanOutcome::Written)) && logged && new_rc == bumped, "C07.R2 Reference increments"); }
			else { assert!(matches!(o, Some(PlanOutcome::Skipped)) && !logged, "C07.R2 Reference on an uncounted column is skipped"); }
		},
		2 => {
			let (o, a) = r.unwrap();
			assert!(a.is_none(), "C07.R2 dereference never moves the value");
			let removed = !rc_col || rc == 1;
			if removed {
				assert!(o.is_none(), "C07.R2 (None, None) exactly when the value goes away");
				assert!(logged && out[0] == 0xff && out[1] == 0xff, "C07.R2 removed value slot becomes a tombstone");
				assert!(vt::last_removed_of(&tables[1]) == 1, "C07.R2 removed slot joins the free list");
			} else {
				assert!(matches!(o, Some(PlanOutcome::Written)), "C07.R2 value stays while the count is positive");
				assert!(logged && new_rc == if rc == u32::MAX { rc } else { rc - 1 }, "C07.R2 Dereference decrements");
				assert!(out[0] == e[0], "C07.R2 entry stays live");
			}
		},
		_ => { assert!(matches!(r, Err(Error::InvalidInput(_))), "C07.R2 tree operations are invalid on a keyed value"); std::mem::forget(r); },
	}
	kani::cover!(true);
	std::mem::forget(change);
	std::mem::forget(w); std::mem::forget(tables); std::mem::forget(overlays);
}

macro_rules! c07_r2 {
	($name:ident, $op:expr) => {
		crate::verif_tbl! {
			#[kani::proof]
			#[kani::unwind(102)]
			fn $name() { dispatch_case($op) }
		}
	};
}
// Set: the counted / preimage flags are concrete per harness (they decide the entry length, which must stay concrete
// on the replace path)
macro_rules! c07_r2_set {
	($name:ident, $rc:expr, $pre:expr) => {
		crate::verif_tbl! {
			#[kani::proof]
			#[kani::unwind(102)]
			fn $name() { dispatch_case2(0, $rc, $pre) }
		}
	};
}
c07_r2_set!(c07_r2_dispatch_set_replace, false, false);
c07_r2_set!(c07_r2_dispatch_set_counted, true, true);
c07_r2_set!(c07_r2_dispatch_set_preimage, false, true);
c07_r2!(c07_r2_dispatch_reference, 1);
c07_r2!(c07_r2_dispatch_dereference, 2);
c07_r2!(c07_r2_dispatch_tree_ops, 3);
c07_r2!(c07_r2_dispatch_tree_ops2, 4);
c07_r2!(c07_r2_dispatch_tree_ops3, 5);


// =====================================================================================
// C09.Q / C14.Q: point lookups through the index into the value tables (HashColumn::get over an OvView):
// the current index and every queued (not yet migrated) older index are consulted; keys that share a page and a
// partial key are told apart by the key tail stored with the value.
// =====================================================================================
fn put_entry(page: &mut crate::index::Chunk, slot: usize, e: u64) {
	let b = e.to_le_bytes();
	let mut k = 0; while k < 8 { page.0[slot * 8 + k] = b[k]; k += 1; }
}
/// Hashed key with a concrete index-visible prefix (bytes 0..8) and a symbolic tail.
fn key_with_tail(tail: &[u8; 24]) -> Key {
	let mut k = [0u8; 32];
	k[0] = 0x12; k[1] = 0x34; k[2] = 0x56; k[3] = 0x78; k[4] = 0x9a; k[5] = 0xbc; k[6] = 0xde; k[7] = 0xf0;
	let mut i = 0; while i < 24 { k[8 + i] = tail[i]; i += 1; }
	k
}
/// Store `val` (8 bytes) for `key` in tier 1 (64-byte entries) slot `slot` of the overlay: [size][key tail 26][value 8].
fn put_value(w: &mut LogWriter, key: &Key, slot: u64, val: &[u8; 8]) {
	let mut v = Vec::with_capacity(36);
	v.push(34u8); v.push(0u8);
	let mut i = 0; while i < 26 { v.push(key[6 + i]); i += 1; }
	let mut i = 0; while i < 8 { v.push(val[i]); i += 1; }
	w.insert_value(ValueTableId::new(0, 1), slot, v);
}

/// where = 0: entry in the current index; 1: in the first queued older index; 2: in the second queued older index.
fn lookup_case(wh: usize) {
	let mut col = mini_plain(false);
	// current index has 18 bits; two older indexes (16, 17 bits) wait in the reindex queue
	{
		let mut t = col.tables.write();
		t.index = crate::index::verif_kani::table(18);
		let mut r = col.reindex.write();
		let old = std::mem::replace(&mut r.queue, static_queue([ReindexEntry::Index(crate::index::verif_kani::table(16)), ReindexEntry::Index(crate::index::verif_kani::table(17))]));
		std::mem::forget(old);
	}
	let overlays = vl::new_overlays();
	let mut w = LogWriter::new(&overlays, 1);
	vl::view_reset_pages();
	crate::index::verif_kani::mirror_reset();
	let tail: [u8; 24] = kani::any();
	let other: [u8; 24] = kani::any();
	let key = key_with_tail(&tail);
	let key2 = key_with_tail(&other);
	let val: [u8; 8] = kani::any();
	let val2: [u8; 8] = kani::any();
	put_value(&mut w, &key2, 1, &val2); // a colliding neighbour (same page, same partial key) in slot 1
	put_value(&mut w, &key, 2, &val);
	let bits = [18u8, 16, 17][wh];
	let kp = TableKey::index_from_partial(&key);
	let it = crate::index::verif_kani::table(bits);
	let mut page = crate::index::Chunk([0u8; 512]);
	let slot0: usize = 5;
	// neighbour first, then a hole, then the key: the search has to continue past a candidate whose tail differs
	let (en1, en2) = (crate::index::verif_kani::entry_for(kp, Address::new(1, 1).as_u64(), bits), crate::index::verif_kani::entry_for(kp, Address::new(2, 1).as_u64(), bits));
	put_entry(&mut page, slot0, en1);
	put_entry(&mut page, slot0 + 2, en2);
	let at = crate::index::verif_kani::chunk_index_of(&it, kp);
	vl::view_set_page(0, it.id, at, page);
	crate::index::verif_kani::mirror_page(0, it.id, at);
	crate::index::verif_kani::mirror_entry(0, slot0, en1);
	crate::index::verif_kani::mirror_entry(0, slot0 + 2, en2);
	let view = vl::OvView;
	let got = col.get(&key, &view).unwrap();
	if tail == other {
		// same key: the first candidate already matches
		assert!(got.is_some(), "C09.Q a stored key is found");
	} else {
		match &got {
			Some((v, rc)) => {
				assert!(*rc == 1 && v.len() == 8, "C09.Q value shape");
				let i: usize = kani::any(); kani::assume(i < 8);
				assert!(v[i] == val[i], "C09.Q colliding keys are told apart by the stored key tail: each key returns its own value");
			},
			None => assert!(false, "C09.Q a key stored in the current or in any queued older index is found"),
		}
	}
	let got2 = col.get(&key2, &view).unwrap();
	assert!(got2.is_some(), "C09.Q the colliding neighbour stays readable");
	// a key with the same prefix but a third tail is absent
	let third: [u8; 24] = kani::any();
	kani::assume(third != tail && third != other);
	let got3 = col.get(&key_with_tail(&third), &view).unwrap();
	assert!(got3.is_none(), "C14.Q no index entry resolves to a value of another key");
	kani::cover!(tail != other);
	std::mem::forget(got); std::mem::forget(got2); std::mem::forget(got3);
	std::mem::forget(w); std::mem::forget(overlays); std::mem::forget(col);
	std::mem::forget(it);
}

macro_rules! c09_q {
	($name:ident, $wh:expr) => {
		crate::verif_tbl! {
			#[kani::proof]
			#[kani::unwind(66)]
			#[kani::stub(crate::index::IndexTable::find_entry, crate::index::verif_kani::find_entry_contract)]
			fn $name() { lookup_case($wh) }
		}
	};
}
c09_q!(c09_q_lookup_current_index, 0);
c09_q!(c09_q_lookup_first_queued_index, 1);
c09_q!(c09_q_lookup_second_queued_index, 2);
