//! Harnesses for src/column.rs: C01.K1 (hash_key), C10.N1 (node decoding), C06.S1b (tier selection through
//! Column::compress), C07.R2 (operation dispatch on an existing value).
#![allow(dead_code, unused_imports, static_mut_refs)]
use super::*;
use crate::file::verif_kani as vf;
use crate::log::verif_kani as vl;
use crate::table::verif_kani as vt;
use crate::verif_common as vc;

pub fn sizes() -> [u16; SIZE_TIERS - 1] { SIZES }

/// Miniature hash column (plain build): 3 value tables {32, 64, multipart 64}, an index without file, no ref counts.
/// Backing store for the column's `Vec<ValueTable>` and reindex queue: typed statics instead of heap allocations.
/// CBMC reads fields of heap-allocated objects (byte arrays) through byte extraction and loses their constants
/// (entry_size, multipart, index_bits ...), which turns every loop that depends on them symbolic; a Vec built with
/// from_raw_parts over a typed static keeps them. The Vecs are never grown or dropped (columns are forgotten).
pub static mut VT_STORE: std::mem::MaybeUninit<[ValueTable; 3]> = std::mem::MaybeUninit::uninit();
pub static mut RQ_STORE: std::mem::MaybeUninit<[ReindexEntry; 2]> = std::mem::MaybeUninit::uninit();
pub fn static_tables(t: [ValueTable; 3]) -> Vec<ValueTable> {
	unsafe { VT_STORE.as_mut_ptr().write(t); Vec::from_raw_parts(VT_STORE.as_mut_ptr() as *mut ValueTable, 3, 3) }
}
pub fn static_queue(q: [ReindexEntry; 2]) -> VecDeque<ReindexEntry> {
	unsafe { RQ_STORE.as_mut_ptr().write(q); VecDeque::from(Vec::from_raw_parts(RQ_STORE.as_mut_ptr() as *mut ReindexEntry, 2, 2)) }
}

pub fn mini_plain(ref_counted: bool) -> HashColumn {
	let value = static_tables([
		vt::mk(ValueTableId::new(0, 0), 32, false, ref_counted, 8),
		vt::mk(ValueTableId::new(0, 1), 64, false, ref_counted, 8),
		vt::mk(ValueTableId::new(0, 2), 64, true, ref_counted, 8),
	]);
	HashColumn {
		col: 0,
		tables: RwLock::new(Tables { index: crate::index::verif_kani::table(16), value, ref_count: None }),
		reindex: RwLock::new(Reindex { queue: VecDeque::new(), progress: AtomicU64::new(0) }),
		ref_count_cache: None,
		path: PathBuf::new(),
		preimage: ref_counted,
		uniform_keys: true,
		collect_stats: false,
		ref_counted,
		append_only: false,
		salt: [0u8; 32],
		stats: crate::stats::verif_kani::tiny(),
		compression: Compress::new(crate::compress::CompressionType::NoCompression, u32::MAX),
		db_version: crate::options::CURRENT_VERSION,
	}
}
pub fn mini_plain_column(ref_counted: bool) -> Column { Column::Hash(mini_plain(ref_counted)) }

// =====================================================================================
// C01.K1: hash_key is total on every admitted key
// =====================================================================================
fn hash_key_uniform_case(len: usize) {
	let buf: [u8; 48] = kani::any();
	let salt: Salt = kani::any();
	kani::assume(salt[0] != 0); // a zero salt selects a cfg(test)-only shortcut in native (test profile) replays
	let k = hash_key(&buf[..len], &salt, true, crate::options::CURRENT_VERSION);
	let i: usize = kani::any();
	kani::assume(i >= 16 && i < 32);
	assert!(k[i] == buf[i], "C01.K1 bytes 16..32 of a uniform key are kept");
	// the first 16 bytes are SipHash-1-3 (keyed by the salt) of the WHOLE key: keys that differ anywhere differ in what is hashed
	use siphasher::sip128::Hasher128;
	use std::hash::Hasher;
	let mut h = siphasher::sip128::SipHasher13::new_with_key(salt[..16].try_into().unwrap());
	h.write(&buf[..len]);
	let hash = h.finish128();
	let a = hash.h1.to_le_bytes();
	let b = hash.h2.to_le_bytes();
	let j: usize = kani::any();
	kani::assume(j < 8);
	assert!(k[j] == a[j] && k[8 + j] == b[j], "C01.K1 first 16 bytes hash the whole key");
}

macro_rules! c01_k1_uniform {
	($name:ident, [$($l:expr),*]) => {
		#[kani::proof]
		#[kani::unwind(50)]
		fn $name() {
			const L: &[usize] = &[$($l),*];
			let s: usize = kani::any();
			kani::assume(s < L.len());
			let mut c = 0;
			while c < L.len() { if c == s { hash_key_uniform_case(L[c]); } c += 1; }
		}
	};
}
c01_k1_uniform!(c01_k1_hash_key_uniform_32_36, [32, 33, 34, 35, 36]);
c01_k1_uniform!(c01_k1_hash_key_uniform_37_48, [37, 39, 40, 41, 47, 48]);

/// Older on-disk versions (<= 5: copy, 6..7: xor with salt) take the first 32 bytes.
#[kani::proof]
#[kani::unwind(50)]
fn c01_k1_hash_key_uniform_old_versions() {
	let buf: [u8; 40] = kani::any();
	let salt: Salt = kani::any();
	let len: usize = kani::any();
	kani::assume(len >= 32 && len <= 40);
	let v: u32 = kani::any();
	kani::assume(v >= 4 && v <= 7);
	let k = hash_key(&buf[..len], &salt, true, v);
	let i: usize = kani::any();
	kani::assume(i < 32);
	if v <= 5 { assert!(k[i] == buf[i], "C01.K1 v<=5 uniform keys are used verbatim"); } else { assert!(k[i] == buf[i] ^ salt[i], "C01.K1 v6-7 uniform keys are xored with the salt"); }
}

/// Hashed (non-uniform) keys of any length 0..=40: Blake2b MAC never panics and is a function of (key, salt).
fn hash_key_hashed_case(len: usize) {
	let buf: [u8; 40] = kani::any();
	let salt: Salt = kani::any();
	let k1 = hash_key(&buf[..len], &salt, false, crate::options::CURRENT_VERSION);
	kani::cover!(k1[0] != 0);
	std::mem::forget(k1);
}
#[kani::proof]
#[kani::unwind(140)]
fn c01_k1_hash_key_hashed_total() {
	const L: &[usize] = &[0, 1, 31, 32, 33, 40];
	let s: usize = kani::any();
	kani::assume(s < L.len());
	let mut c = 0;
	while c < L.len() { if c == s { hash_key_hashed_case(L[c]); } c += 1; }
}

// =====================================================================================
// C10.N1: node decoding is total and inverts packing
// =====================================================================================
fn unpack_case(l: usize, count: u8) {
	let mut buf: [u8; 40] = kani::any();
	if l > 0 { buf[l - 1] = count; }
	let data = buf[..l].to_vec();
	let r = unpack_node_data(data.clone());
	let c = unpack_node_children(&data);
	let fits = l >= 1 && (count as usize) * 8 + 1 <= l;
	match (r, c) {
		(Ok((d, ch)), Ok(ch2)) => {
			assert!(fits, "C10.N1 decoding succeeds only if the children fit");
			assert!(ch.len() == count as usize && ch2.len() == count as usize, "C10.N1 child count is the trailing byte");
			assert!(d.len() + ch.len() * 8 + 1 == l, "C10.N1 data ++ children ++ count is the whole input");
			assert!(packed_node_size(&d, count) == l, "C10.N1 packed_node_size inverts");
			if d.len() > 0 {
				let i: usize = kani::any();
				kani::assume(i < d.len());
				assert!(d[i] == buf[i], "C10.N1 data bytes are the prefix");
			}
			if ch.len() > 0 {
				let j: usize = kani::any();
				kani::assume(j < ch.len());
				let o = d.len() + j * 8;
				let want = u64::from_le_bytes([buf[o], buf[o + 1], buf[o + 2], buf[o + 3], buf[o + 4], buf[o + 5], buf[o + 6], buf[o + 7]]);
				assert!(ch[j] == want && ch2[j] == want, "C10.N1 children are the little-endian addresses in order");
			}
			std::mem::forget(d); std::mem::forget(ch); std::mem::forget(ch2);
		},
		(Err(_), Err(_)) => { assert!(!fits, "C10.N1 a well-formed node is never rejected"); },
		_ => assert!(false, "C10.N1 both decoders agree"),
	}
	std::mem::forget(data);
}

macro_rules! c10_n1 {
	($name:ident, [$(($l:expr, $c:expr)),*]) => {
		#[kani::proof]
		#[kani::unwind(42)]
		#[kani::stub(alloc::fmt::format, crate::verif_common::fmt_stub)]
		fn $name() {
			const L: &[(usize, u8)] = &[$(($l, $c)),*];
			let s: usize = kani::any();
			kani::assume(s < L.len());
			let mut c = 0;
			while c < L.len() { if c == s { unpack_case(L[c].0, L[c].1); } c += 1; }
		}
	};
}
// one harness per (length, trailing count byte) pair: the decoders read the count back from a heap vector, so their
// loops are unrolled to the bound with symbolic guards (about 1-3 minutes per pair)
c10_n1!(c10_n1_unpack_l0_c0, [(0, 0)]);
c10_n1!(c10_n1_unpack_l1_c0, [(1, 0)]);
c10_n1!(c10_n1_unpack_l1_c1, [(1, 1)]);
c10_n1!(c10_n1_unpack_l8_c1, [(8, 1)]);
c10_n1!(c10_n1_unpack_l9_c1, [(9, 1)]);
c10_n1!(c10_n1_unpack_l10_c1, [(10, 1)]);
c10_n1!(c10_n1_unpack_l16_c2, [(16, 2)]);
c10_n1!(c10_n1_unpack_l17_c2, [(17, 2)]);
c10_n1!(c10_n1_unpack_l18_c2, [(18, 2)]);
c10_n1!(c10_n1_unpack_l5_c0, [(5, 0)]);
c10_n1!(c10_n1_unpack_l25_c3, [(25, 3)]);
c10_n1!(c10_n1_unpack_l24_c3, [(24, 3)]);
c10_n1!(c10_n1_unpack_l26_c3, [(26, 3)]);
c10_n1!(c10_n1_unpack_l33_c4, [(33, 4)]);
c10_n1!(c10_n1_unpack_l40_c4, [(40, 4)]);
c10_n1!(c10_n1_unpack_l40_c5, [(40, 5)]);
c10_n1!(c10_n1_unpack_l40_c0, [(40, 0)]);
c10_n1!(c10_n1_unpack_l3_c255, [(3, 255)]);
c10_n1!(c10_n1_unpack_l40_c255, [(40, 255)]);
c10_n1!(c10_n1_unpack_l40_c128, [(40, 128)]);

// =====================================================================================
// C06.S1b: tier selection by Column::compress (codec replaced by a model returning any shorter/longer output)
// =====================================================================================
pub static mut CODEC_OUT_LEN: usize = 0;
pub static mut CODEC_CALLS: usize = 0;
/// Model of a codec: output of a harness-chosen length (content irrelevant to tier selection).
pub fn stub_compress(_c: &Compress, _buf: &[u8]) -> Vec<u8> {
	unsafe { CODEC_CALLS += 1; }
	let n = unsafe { CODEC_OUT_LEN };
	let mut v = Vec::with_capacity(n);
	let mut k = 0;
	while k < n { v.push(0u8); k += 1; }
	v
}

fn three_tables(rc: bool) -> [ValueTable; 3] {
	[
		vt::mk(ValueTableId::new(0, 0), 32, false, rc, 8),
		vt::mk(ValueTableId::new(0, 1), 64, false, rc, 8),
		vt::mk(ValueTableId::new(0, 2), 64, true, rc, 8),
	]
}

fn spec_tier(len: usize, key: &TableKey, rc: bool) -> usize {
	let k = key.encoded_size() + if rc { 4 } else { 0 } + 2;
	if 32 >= k && len <= 32 - k { 0 } else if 64 >= k && len <= 64 - k { 1 } else { 2 }
}

fn compress_case(len: usize, out_len: usize) {
	let rc: bool = kani::any();
	let partial: bool = kani::any();
	let tables = three_tables(rc);
	let key = if partial { TableKey::Partial(kani::any()) } else { TableKey::NoHash };
	let threshold: u32 = kani::any();
	let c = Compress::new(crate::compress::CompressionType::NoCompression, threshold);
	unsafe { CODEC_OUT_LEN = out_len; CODEC_CALLS = 0; }
	let buf = [0u8; 100];
	let (cv, tier) = Column::compress(&c, &key, &buf[..len], &tables);
	let calls = unsafe { CODEC_CALLS };
	assert!(calls == if len > threshold as usize { 1 } else { 0 }, "C06.S1 the codec runs only above the threshold");
	match &cv {
		Some(v) => {
			assert!(calls == 1 && v.len() == out_len && out_len < len, "C06.S1 compressed form kept only if strictly smaller");
			assert!(tier == spec_tier(out_len, &key, rc), "C06.S1 tier is the smallest one fitting the stored (compressed) bytes");
		},
		None => {
			assert!(calls == 0 || out_len >= len, "C06.S1 compressed form is used when smaller");
			assert!(tier == spec_tier(len, &key, rc), "C06.S1 tier is the smallest one fitting the value");
		},
	}
	kani::cover!(cv.is_some() && tier == 0);
	kani::cover!(cv.is_none() && tier == 2);
	std::mem::forget(cv);
	std::mem::forget(tables);
}

macro_rules! c06_s1b {
	($name:ident, [$(($l:expr, $o:expr)),*]) => {
		#[kani::proof]
		#[kani::unwind(102)]
		#[kani::stub(crate::compress::Compress::compress, stub_compress)]
		fn $name() {
			const L: &[(usize, usize)] = &[$(($l, $o)),*];
			let s: usize = kani::any();
			kani::assume(s < L.len());
			let mut c = 0;
			while c < L.len() { if c == s { compress_case(L[c].0, L[c].1); } c += 1; }
		}
	};
}
// boundaries: tier 0 fits 30 (NoHash) / 4 (Partial) / 26,0 with rc; tier 1 fits 62 / 36 / 58, 32
c06_s1b!(c06_s1b_compress_tier_a, [(0, 0), (4, 3), (5, 4), (5, 5), (30, 29), (31, 30), (31, 31), (36, 4), (37, 36), (37, 5)]);
c06_s1b!(c06_s1b_compress_tier_b, [(62, 30), (63, 62), (63, 31), (63, 63), (96, 4), (96, 37), (96, 63), (96, 95), (26, 0), (33, 32)]);

// =====================================================================================
// C07.R2: dispatch of the six operations on an existing value (Column::write_existing_value_plan)
// =====================================================================================
fn dispatch_case(op: u8) { dispatch_case2(op, kani::any(), kani::any()) }

fn dispatch_case2(op: u8, rc_col: bool, preimage: bool) {
	const E: usize = 64;
	let tables = [vt::mk(ValueTableId::new(0, 0), 32, false, rc_col, 8), vt::mk(ValueTableId::new(0, 1), E as u16, false, rc_col, 8), vt::mk(ValueTableId::new(0, 2), E as u16, true, rc_col, 8)];
	vt::set_filled(&tables[1], 3);
	let overlays = vl::new_overlays();
	let mut w = LogWriter::new(&overlays, 1);
	let keyb: Key = kani::any();
	let key = TableKey::Partial(keyb);
	// existing entry at tier 1 slot 1: [size][rc?][key tail 26][value 8]
	let rc: u32 = kani::any();
	kani::assume(rc >= 1);
	let val: [u8; 8] = kani::any();
	let mut e = [0u8; E];
	let hdr = if rc_col { 6 } else { 2 };
	let total = hdr - 2 + 26 + 8;
	e[0] = total as u8;
	if rc_col { let b = rc.to_le_bytes(); let mut k = 0; while k < 4 { e[2 + k] = b[k]; k += 1; } }
	let mut k = 0; while k < 26 { e[hdr + k] = keyb[6 + k]; k += 1; }
	let mut k = 0; while k < 8 { e[hdr + 26 + k] = val[k]; k += 1; }
	vf::disk_put(vt::file_of(&tables[1]), E, &e[..2 + total]);
	let address = Address::new(1, 1);
	let compression = Compress::new(crate::compress::CompressionType::NoCompression, u32::MAX);
	let tref = TablesRef { tables: &tables, compression: &compression, col: 0, preimage, ref_counted: rc_col };
	let newv: [u8; 8] = kani::any();
	// value type [u8; 8]: its length is a type-level constant (a Vec's length stored inside the enum is not a constant
	// for symbolic execution and would flow into slice lengths)
	let change: Operation<Key, [u8; 8]> = match op {
		0 => Operation::Set(keyb, newv),
		1 => Operation::Reference(keyb),
		2 => Operation::Dereference(keyb),
		3 => Operation::ReferenceTree(keyb),
		4 => Operation::DereferenceTree(keyb),
		_ => Operation::InsertTree(keyb, crate::multitree::NewNode { data: Vec::new(), children: Vec::new() }),
	};
	let r = Column::write_existing_value_plan(&key, tref, address, &change, &mut w, None, rc_col);
	let mut out = [0u8; E];
	let logged = vl::rec_get(&w, tables[1].id, 1, &mut out);
	let new_rc = u32::from_le_bytes([out[2], out[3], out[4], out[5]]);
	let bumped = if rc >= u32::MAX - 1 { u32::MAX } else { rc + 1 };
	match op {
		0 => {
			let (o, a) = r.unwrap();
			assert!(a.is_none(), "C07.R2 same-tier set does not move the value");
			if rc_col {
				assert!(matches!(o, Some(PlanOutcome::Written)) && logged && new_rc == bumped, "C07.R2 Set on an existing key of a counted column increments");
				let i: usize = kani::any(); kani::assume(i < 8);
				assert!(out[6 + 26 + i] == val[i], "C07.R2 Set on a counted column never rewrites the value");
			} else if preimage {
				assert!(matches!(o, Some(PlanOutcome::Skipped)) && !logged, "C07.R2 preimage columns skip replacement");
			} else {
				assert!(matches!(o, Some(PlanOutcome::Written)) && logged, "C07.R2 Set replaces in place");
				let i: usize = kani::any(); kani::assume(i < 8);
				assert!(out[2 + 26 + i] == newv[i], "C07.R2 replaced value bytes");
			}
		},
		1 => {
			let (o, a) = r.unwrap();
			assert!(a.is_none(), "C07.R2 reference never moves the value");
			if rc_col { assert!(matches!(o, Some(PlanOutcome::Written)) && logged && new_rc == bumped, "C07.R2 Reference increments"); }
			else { assert!(matches!(o, Some(PlanOutcome::Skipped)) && !logged, "C07.R2 Reference on an uncounted column is skipped"); }
		},
		2 => {
			let (o, a) = r.unwrap();
			assert!(a.is_none(), "C07.R2 dereference never moves the value");
			let removed = !rc_col || rc == 1;
			if removed {
				assert!(o.is_none(), "C07.R2 (None, None) exactly when the value goes away");
				assert!(logged && out[0] == 0xff && out[1] == 0xff, "C07.R2 removed value slot becomes a tombstone");
				assert!(vt::last_removed_of(&tables[1]) == 1, "C07.R2 removed slot joins the free list");
			} else {
				assert!(matches!(o, Some(PlanOutcome::Written)), "C07.R2 value stays while the count is positive");
				assert!(logged && new_rc == if rc == u32::MAX { rc } else { rc - 1 }, "C07.R2 Dereference decrements");
				assert!(out[0] == e[0], "C07.R2 entry stays live");
			}
		},
		_ => { assert!(matches!(r, Err(Error::InvalidInput(_))), "C07.R2 tree operations are invalid on a keyed value"); std::mem::forget(r); },
	}
	kani::cover!(true);
	std::mem::forget(change);
	std::mem::forget(w); std::mem::forget(tables); std::mem::forget(overlays);
}

macro_rules! c07_r2 {
	($name:ident, $op:expr) => {
		crate::verif_tbl! {
			#[kani::proof]
			#[kani::unwind(102)]
			fn $name() { dispatch_case($op) }
		}
	};
}
// Set: the counted / preimage flags are concrete per harness (they decide the entry length, which must stay concrete
// on the replace path)
macro_rules! c07_r2_set {
	($name:ident, $rc:expr, $pre:expr) => {
		crate::verif_tbl! {
			#[kani::proof]
			#[kani::unwind(102)]
			fn $name() { dispatch_case2(0, $rc, $pre) }
		}
	};
}
c07_r2_set!(c07_r2_dispatch_set_replace, false, false);
c07_r2_set!(c07_r2_dispatch_set_counted, true, true);
c07_r2_set!(c07_r2_dispatch_set_preimage, false, true);
c07_r2!(c07_r2_dispatch_reference, 1);
c07_r2!(c07_r2_dispatch_dereference, 2);
c07_r2!(c07_r2_dispatch_tree_ops, 3);
c07_r2!(c07_r2_dispatch_tree_ops2, 4);
c07_r2!(c07_r2_dispatch_tree_ops3, 5);


// =====================================================================================
// C09.Q / C14.Q: point lookups through the index into the value tables (HashColumn::get over an OvView):
// the current index and every queued (not yet migrated) older index are consulted; keys that share a page and a
// partial key are told apart by the key tail stored with the value.
// =====================================================================================
fn put_entry(page: &mut crate::index::Chunk, slot: usize, e: u64) {
	let b = e.to_le_bytes();
	let mut k = 0; while k < 8 { page.0[slot * 8 + k] = b[k]; k += 1; }
}
/// Hashed key with a concrete index-visible prefix (bytes 0..8) and a symbolic tail.
fn key_with_tail(tail: &[u8; 24]) -> Key {
	let mut k = [0u8; 32];
	k[0] = 0x12; k[1] = 0x34; k[2] = 0x56; k[3] = 0x78; k[4] = 0x9a; k[5] = 0xbc; k[6] = 0xde; k[7] = 0xf0;
	let mut i = 0; while i < 24 { k[8 + i] = tail[i]; i += 1; }
	k
}
/// Store `val` (8 bytes) for `key` in tier 1 (64-byte entries) slot `slot` of the overlay: [size][key tail 26][value 8].
fn put_value(w: &mut LogWriter, key: &Key, slot: u64, val: &[u8; 8]) {
	let mut v = Vec::with_capacity(36);
	v.push(34u8); v.push(0u8);
	let mut i = 0; while i < 26 { v.push(key[6 + i]); i += 1; }
	let mut i = 0; while i < 8 { v.push(val[i]); i += 1; }
	w.insert_value(ValueTableId::new(0, 1), slot, v);
}

/// where = 0: entry in the current index; 1: in the first queued older index; 2: in the second queued older index.
fn lookup_case(wh: usize) {
	let mut col = mini_plain(false);
	// current index has 18 bits; two older indexes (16, 17 bits) wait in the reindex queue
	{
		let mut t = col.tables.write();
		t.index = crate::index::verif_kani::table(18);
		let mut r = col.reindex.write();
		let old = std::mem::replace(&mut r.queue, static_queue([ReindexEntry::Index(crate::index::verif_kani::table(16)), ReindexEntry::Index(crate::index::verif_kani::table(17))]));
		std::mem::forget(old);
	}
	let overlays = vl::new_overlays();
	let mut w = LogWriter::new(&overlays, 1);
	vl::view_reset_pages();
	crate::index::verif_kani::mirror_reset();
	let tail: [u8; 24] = kani::any();
	let other: [u8; 24] = kani::any();
	let key = key_with_tail(&tail);
	let key2 = key_with_tail(&other);
	let val: [u8; 8] = kani::any();
	let val2: [u8; 8] = kani::any();
	put_value(&mut w, &key2, 1, &val2); // a colliding neighbour (same page, same partial key) in slot 1
	put_value(&mut w, &key, 2, &val);
	let bits = [18u8, 16, 17][wh];
	let kp = TableKey::index_from_partial(&key);
	let it = crate::index::verif_kani::table(bits);
	let mut page = crate::index::Chunk([0u8; 512]);
	let slot0: usize = 5;
	// neighbour first, then a hole, then the key: the search has to continue past a candidate whose tail differs
	let (en1, en2) = (crate::index::verif_kani::entry_for(kp, Address::new(1, 1).as_u64(), bits), crate::index::verif_kani::entry_for(kp, Address::new(2, 1).as_u64(), bits));
	put_entry(&mut page, slot0, en1);
	put_entry(&mut page, slot0 + 2, en2);
	let at = crate::index::verif_kani::chunk_index_of(&it, kp);
	vl::view_set_page(0, it.id, at, page);
	crate::index::verif_kani::mirror_page(0, it.id, at);
	crate::index::verif_kani::mirror_entry(0, slot0, en1);
	crate::index::verif_kani::mirror_entry(0, slot0 + 2, en2);
	let view = vl::OvView;
	let got = col.get(&key, &view).unwrap();
	if tail == other {
		// same key: the first candidate already matches
		assert!(got.is_some(), "C09.Q a stored key is found");
	} else {
		match &got {
			Some((v, rc)) => {
				assert!(*rc == 1 && v.len() == 8, "C09.Q value shape");
				let i: usize = kani::any(); kani::assume(i < 8);
				assert!(v[i] == val[i], "C09.Q colliding keys are told apart by the stored key tail: each key returns its own value");
			},
			None => assert!(false, "C09.Q a key stored in the current or in any queued older index is found"),
		}
	}
	let got2 = col.get(&key2, &view).unwrap();
	assert!(got2.is_some(), "C09.Q the colliding neighbour stays readable");
	// a key with the same prefix but a third tail is absent
	let third: [u8; 24] = kani::any();
	kani::assume(third != tail && third != other);
	let got3 = col.get(&key_with_tail(&third), &view).unwrap();
	assert!(got3.is_none(), "C14.Q no index entry resolves to a value of another key");
	kani::cover!(tail != other);
	std::mem::forget(got); std::mem::forget(got2); std::mem::forget(got3);
	std::mem::forget(w); std::mem::forget(overlays); std::mem::forget(col);
	std::mem::forget(it);
}

macro_rules! c09_q {
	($name:ident, $wh:expr) => {
		crate::verif_tbl! {
			#[kani::proof]
			#[kani::unwind(66)]
			#[kani::stub(crate::index::IndexTable::find_entry, crate::index::verif_kani::find_entry_contract)]
			fn $name() { lookup_case($wh) }
		}
	};
}
c09_q!(c09_q_lookup_current_index, 0);
c09_q!(c09_q_lookup_first_queued_index, 1);
c09_q!(c09_q_lookup_second_queued_index, 2);

// =====================================================================================
// C09.L / C07.L / C14.L: the *caller loops* over index candidates, assume/guarantee style (DESIGN 10.7).
// `IndexTable::get` is replaced by its contract over a harness-chosen candidate list ("the first slot >= sub_index whose
// partial key matches, else (empty, 0)" — C19 proves find_entry refines exactly this), the value-table confirmation
// (`ValueTable::has_key_at` / `Column::get_value`) by a symbolic verdict per candidate address. What stays real code is
// what the seeded changes C07.1 / C09.2 break: the continuation at `sub_index + 1`, the order current index -> every
// queued older index, the returned (table, slot, address) triple.
// =====================================================================================
pub const NC: usize = 4;
pub static mut CAND_N: usize = 0;
pub static mut CAND_TABLE: [u16; NC] = [0; NC]; // index table (as_u16) the candidate lives in
pub static mut CAND_SUB: [usize; NC] = [0; NC]; // its slot in the page (strictly increasing per table)
pub static mut CAND_OK: [bool; NC] = [false; NC]; // does the value stored at its address carry the key's tail?
pub static mut GET_CALLS: usize = 0;
pub fn cand_address(c: usize) -> Address { Address::new(c as u64 + 1, (c % 2) as u8) }

pub fn stub_index_get<Q: LogQuery>(t: &IndexTable, _key: &Key, sub_index: usize, _log: &Q) -> Result<(crate::index::Entry, usize)> {
	unsafe {
		GET_CALLS += 1;
		let mut c = 0;
		while c < NC {
			if c < CAND_N && CAND_TABLE[c] == t.id.as_u16() && CAND_SUB[c] >= sub_index {
				let e = crate::index::verif_kani::mk_entry(cand_address(c), 1, t.id.index_bits());
				return Ok((e, CAND_SUB[c]))
			}
			c += 1;
		}
	}
	Ok((crate::index::verif_kani::empty_entry(), 0))
}

fn cand_of(tier: usize, offset: u64) -> usize {
	let mut c = 0;
	while c < NC { if cand_address(c).offset() == offset && cand_address(c).size_tier() as usize == tier { return c } c += 1; }
	NC
}

pub fn stub_has_key_at(t: &ValueTable, index: u64, _key: &TableKey, _log: &LogWriter) -> Result<bool> {
	let c = cand_of(t.id.size_tier() as usize, index);
	assert!(c < NC, "C14.L the value table is asked only about addresses that came out of an index entry");
	Ok(unsafe { CAND_OK[c] })
}

pub fn stub_get_value<Q: LogQuery>(_key: TableKeyQuery, address: Address, _tables: TablesRef, _log: &Q) -> Result<Option<(u8, u32, Value)>> {
	let c = cand_of(address.size_tier() as usize, address.offset());
	assert!(c < NC, "C14.L values are fetched only at addresses that came out of an index entry");
	if unsafe { CAND_OK[c] } { Ok(Some((address.size_tier(), c as u32 + 1, Vec::new()))) } else { Ok(None) }
}

/// Candidate lists: `shape` gives the number of candidates in (current, first queued, second queued) index.
fn setup_candidates(shape: [usize; 3], ids: [u16; 3]) {
	unsafe {
		let mut n = 0;
		let mut t = 0;
		while t < 3 {
			let mut k = 0;
			let mut prev: usize = 0;
			while k < shape[t] {
				let s: usize = kani::any();
				kani::assume(s < 64 && (k == 0 || s > prev));
				prev = s;
				CAND_TABLE[n] = ids[t]; CAND_SUB[n] = s; CAND_OK[n] = kani::any();
				n += 1; k += 1;
			}
			t += 1;
		}
		CAND_N = n;
		GET_CALLS = 0;
	}
}

/// Specification: the first candidate in table order (current, queue front .. back) and slot order that is confirmed.
fn spec_first_ok() -> usize {
	let mut c = 0;
	unsafe { while c < NC { if c < CAND_N && CAND_OK[c] { return c } c += 1; } }
	NC
}

fn chain_column(nq: usize) -> (HashColumn, [u16; 3]) {
	let col = mini_plain(false);
	let ids = [crate::index::verif_kani::table(18).id.as_u16(), crate::index::verif_kani::table(16).id.as_u16(), crate::index::verif_kani::table(17).id.as_u16()];
	{
		let mut t = col.tables.write();
		let old = std::mem::replace(&mut t.index, crate::index::verif_kani::table(18));
		std::mem::forget(old);
		if nq > 0 {
			let mut r = col.reindex.write();
			let old = std::mem::replace(&mut r.queue, static_queue([ReindexEntry::Index(crate::index::verif_kani::table(16)), ReindexEntry::Index(crate::index::verif_kani::table(17))]));
			std::mem::forget(old);
		}
	}
	(col, ids)
}

/// search_all_indexes (the write path's lookup): result is the spec's candidate, with its own table, slot and address.
fn search_case(shape: [usize; 3]) {
	let nq = if shape[1] + shape[2] > 0 { 2 } else { 0 };
	let (col, ids) = chain_column(nq);
	setup_candidates(shape, ids);
	let overlays = vl::new_overlays();
	let w = LogWriter::new(&overlays, 1);
	let key: Key = kani::any();
	let want = spec_first_ok();
	{
		let tables = col.tables.read();
		let reindex = col.reindex.read();
		let got = HashColumn::search_all_indexes(&key, &tables, &reindex, &w).unwrap();
		match got {
			Some((t, sub, addr)) => {
				assert!(want < NC, "C09.L a key whose candidates all belong to other keys is reported absent");
				unsafe {
					assert!(t.id.as_u16() == CAND_TABLE[want], "C09.L the hit is reported in the index table that holds it (current first, then every queued older index in order)");
					assert!(sub == CAND_SUB[want], "C09.L the reported slot is the confirmed candidate's slot");
				}
				assert!(addr == cand_address(want), "C09.L the reported address is the confirmed candidate's address");
			},
			None => assert!(want == NC, "C09.L a confirmed candidate behind colliding neighbours / in a queued older index is found"),
		}
	}
	kani::cover!(want < NC && want > 0);
	kani::cover!(want == NC && unsafe { CAND_N } > 0);
	std::mem::forget(w); std::mem::forget(overlays); std::mem::forget(col);
}

/// HashColumn::get (the read path's lookup): value of the spec's candidate (the stub tags it with rc = c + 1).
fn get_case(shape: [usize; 3]) {
	let nq = if shape[1] + shape[2] > 0 { 2 } else { 0 };
	let (col, ids) = chain_column(nq);
	setup_candidates(shape, ids);
	let key: Key = kani::any();
	let want = spec_first_ok();
	let view = vl::OvView;
	let got = col.get(&key, &view).unwrap();
	match &got {
		Some((_v, rc)) => assert!(want < NC && *rc == want as u32 + 1, "C09.L get returns the value of the first confirmed candidate (current index, then each queued older index)"),
		None => assert!(want == NC, "C09.L get finds a key stored behind colliding neighbours or only in a queued older index"),
	}
	kani::cover!(want < NC && want > 0);
	kani::cover!(want == NC && unsafe { CAND_N } > 0);
	std::mem::forget(got); std::mem::forget(col);
}

macro_rules! c09_l {
	($sname:ident, $gname:ident, $shape:expr) => {
		crate::verif_tbl! {
			#[kani::proof]
			#[kani::unwind(12)]
			#[kani::stub(crate::index::IndexTable::get, stub_index_get)]
			#[kani::stub(crate::table::ValueTable::has_key_at, stub_has_key_at)]
			fn $sname() { search_case($shape) }
		}
		crate::verif_tbl! {
			#[kani::proof]
			#[kani::unwind(12)]
			#[kani::stub(crate::index::IndexTable::get, stub_index_get)]
			#[kani::stub(crate::column::Column::get_value, stub_get_value)]
			fn $gname() { get_case($shape) }
		}
	};
}
c09_l!(c09_l_search_current_3, c09_l_get_current_3, [3, 0, 0]);
c09_l!(c09_l_search_cur1_q1_q2, c09_l_get_cur1_q1_q2, [1, 1, 2]);
c09_l!(c09_l_search_cur0_q2_q2, c09_l_get_cur0_q2_q2, [0, 2, 2]);
c09_l!(c09_l_search_cur2_q0_q2, c09_l_get_cur2_q0_q2, [2, 0, 2]);

// =====================================================================================
// C09.R: one reindex batch and the hand-over to the next queued index (HashColumn::{reindex, drop_index}).
// `IndexTable::entries` is replaced by "page p of the source index is this symbolic page"; the loop over pages and
// entries, the progress cursor and the drop decision are real code.
// =====================================================================================
pub static mut RX_PAGES: [[u64; 64]; 2] = [[0; 64]; 2];
pub static mut RX_BASE: u64 = 0;
pub fn stub_entries<Q: LogQuery>(_t: &IndexTable, chunk_index: u64, _log: &Q) -> Result<[crate::index::Entry; 64]> {
	let mut out = [crate::index::verif_kani::empty_entry(); 64];
	let p = unsafe { chunk_index - RX_BASE } as usize;
	assert!(p < 2, "harness bound: at most two source pages per batch");
	let mut i = 0;
	while i < 64 { out[i] = crate::index::verif_kani::entry_from(unsafe { RX_PAGES[p][i] }); i += 1; }
	Ok(out)
}
pub static mut DROPPED_FILES: usize = 0;
pub fn stub_drop_file(t: IndexTable) -> Result<()> { unsafe { DROPPED_FILES += 1; } std::mem::forget(t); Ok(()) }

/// `left` = number of source pages not yet migrated when the batch starts (0, 1 or 2).
fn reindex_batch_case(left: u64) {
	let (col, _ids) = chain_column(2);
	let src_bits = 16u8;
	let total = crate::index::verif_kani::table(src_bits).id.total_chunks();
	let start = total - left;
	col.reindex.read().progress.store(start, Ordering::Relaxed);
	// sparse symbolic pages
	let mut live = [[false; 64]; 2];
	unsafe {
		RX_BASE = start;
		let mut p = 0;
		while p < 2 {
			let mut i = 0; while i < 64 { RX_PAGES[p][i] = 0; i += 1; }
			// live slots at concrete positions with concrete content (first, middle, last; the second page also slot 1): with a
			// symbolic emptiness test the batch Vec grows under symbolic branches and CBMC went to 23 GB. The entry arithmetic
			// (address, recover_key_prefix) is decided for all values in C20.M2 / C09.G1; this harness decides the scheduling.
			RX_PAGES[p][0] = 0x0123_4567_89ab_cde0 + p as u64; RX_PAGES[p][31 + p] = 0x00ff_0000_0000_1230 + p as u64; RX_PAGES[p][63] = 0xfedc_ba98_7654_3210 - p as u64;
			if p == 1 { RX_PAGES[p][1] = 77; }
			let mut i = 0; while i < 64 { live[p][i] = RX_PAGES[p][i] != 0; i += 1; }
			p += 1;
		}
	}
	let log = crate::log::verif_kani::mk_log_plain(true);
	let batch = col.reindex(&log).unwrap();
	let after = col.reindex.read().progress.load(Ordering::Relaxed);
	assert!(after == total, "C09.R a batch below the size limit migrates every remaining page of the source index");
	assert!((batch.drop_index == Some(crate::index::verif_kani::table(src_bits).id)) == (left > 0), "C09.R the source index is dropped exactly when its last page has been handed over");
	// every live entry of every page in [start, after) is in the batch, in order, with its address and recovered key prefix
	let mut n = 0;
	let src = crate::index::verif_kani::table(src_bits);
	let mut p = 0;
	while p < 2 {
		if (p as u64) < left {
			let mut i = 0;
			while i < 64 {
				if live[p][i] {
					assert!(n < batch.batch.len(), "C09.R every non-empty entry of a migrated page is in the batch");
					let e = crate::index::verif_kani::entry_from(unsafe { RX_PAGES[p][i] });
					let (k, a) = batch.batch[n];
					assert!(a == e.address(src_bits), "C09.R batch entry carries the entry's value address");
					assert!(k == src.recover_key_prefix(start + p as u64, e), "C09.R batch entry carries the key prefix recovered from (page, partial key)");
					n += 1;
				}
				i += 1;
			}
		}
		p += 1;
	}
	assert!(n == batch.batch.len(), "C09.R the batch holds nothing but the live entries of the migrated pages");
	kani::cover!(n == 3 * left as usize + if left == 2 { 1 } else { 0 });
	std::mem::forget(batch); std::mem::forget(log); std::mem::forget(col); std::mem::forget(src);
}

crate::verif_tbl! {
	#[kani::proof]
	#[kani::unwind(66)]
	#[kani::stub(crate::index::IndexTable::entries, stub_entries)]
	fn c09_r_reindex_batch_last_two_pages() { reindex_batch_case(2) }
}
crate::verif_tbl! {
	#[kani::proof]
	#[kani::unwind(66)]
	#[kani::stub(crate::index::IndexTable::entries, stub_entries)]
	fn c09_r_reindex_batch_last_page() { reindex_batch_case(1) }
}
crate::verif_tbl! {
	#[kani::proof]
	#[kani::unwind(66)]
	#[kani::stub(crate::index::IndexTable::entries, stub_entries)]
	fn c09_r_reindex_batch_nothing_left() { reindex_batch_case(0) }
}

/// drop_index(id): if `id` is the queue front, the front is removed (its file dropped) and the progress cursor restarts
/// at page 0 for the next queued index; any other id changes nothing.
crate::verif_tbl! {
	#[kani::proof]
	#[kani::unwind(12)]
	#[kani::stub(crate::index::IndexTable::drop_file, stub_drop_file)]
	fn c09_r_drop_index_restarts_progress() {
		let (col, _ids) = chain_column(2);
		let p0: u64 = kani::any();
		col.reindex.read().progress.store(p0, Ordering::Relaxed);
		let which: u8 = kani::any();
		kani::assume(which < 3);
		let id = crate::index::verif_kani::table([16u8, 17, 20][which as usize]).id;
		unsafe { DROPPED_FILES = 0; }
		col.drop_index(id).unwrap();
		let r = col.reindex.read();
		if which == 0 {
			assert!(r.queue.len() == 1, "C09.R dropping the migrated index removes it from the queue");
			assert!(matches!(r.queue.front(), Some(ReindexEntry::Index(t)) if t.id.index_bits() == 17), "C09.R the next queued index becomes the migration source");
			assert!(r.progress.load(Ordering::Relaxed) == 0, "C09.R migration of the next queued index starts at its first page");
			assert!(unsafe { DROPPED_FILES } == 1, "C09.R the migrated index file is removed");
		} else {
			assert!(r.queue.len() == 2 && r.progress.load(Ordering::Relaxed) == p0 && unsafe { DROPPED_FILES } == 0, "C09.R dropping an index that is not the migration source changes nothing");
		}
		kani::cover!(which == 0 && p0 > 0);
		drop(r);
		std::mem::forget(col);
	}
}

// =====================================================================================
// C14.W / C09.N: HashColumn::write_plan — how the index follows the value tables inside one record.
// Value-table work (`Column::write_existing_value_plan`, `write_new_value_plan`) and page work
// (`IndexTable::write_insert_plan`, `write_remove_plan`) are contracts that record their calls (both are decided on
// their own: C07.R2 / C06 and C09.P1-P4); what is real is the glue that must keep index and values consistent:
// a moved value rewrites its index entry (in place if it lives in the current index, as a new entry if it was found in
// a queued older index), a removed value removes the entry from the index it was found in, a new key gets its value
// written once and its entry inserted into the current index, and a full page queues the current index and retries
// in an index twice the size.
// =====================================================================================
pub static mut WX_SHAPE: u8 = 0; // 0: (Some(outcome), _)   1: (None, Some(new address))   2: (None, None)
pub static mut WX_NEWADDR: u64 = 0;
pub static mut WX_CALLS: usize = 0;
pub static mut WX_ARG_ADDR: u64 = 0;
pub static mut WX_ARG_RC: bool = false;
pub fn stub_write_existing<K, V: AsRef<[u8]>>(_key: &TableKey, _t: TablesRef, address: Address, _c: &Operation<K, V>, _l: &mut LogWriter,
	_s: Option<&ColumnStats>, ref_counted: bool) -> Result<(Option<PlanOutcome>, Option<Address>)> {
	unsafe {
		WX_CALLS += 1; WX_ARG_ADDR = address.as_u64(); WX_ARG_RC = ref_counted;
		Ok(match WX_SHAPE { 0 => (Some(PlanOutcome::Written), None), 1 => (None, Some(Address::from_u64(WX_NEWADDR))), _ => (None, None) })
	}
}
pub static mut WN_CALLS: usize = 0;
pub fn stub_write_new(_key: &TableKey, _t: TablesRef, _val: &[u8], _l: &mut LogWriter, _s: Option<&ColumnStats>) -> Result<Address> {
	unsafe { WN_CALLS += 1; Ok(Address::from_u64(WX_NEWADDR)) }
}
pub const IXC: usize = 4;
pub static mut IX_N: usize = 0;
pub static mut IX_KIND: [u8; IXC] = [0; IXC]; // 1 insert, 2 remove
pub static mut IX_BITS: [u8; IXC] = [0; IXC];
pub static mut IX_ADDR: [u64; IXC] = [0; IXC];
pub static mut IX_SUB: [usize; IXC] = [0; IXC]; // usize::MAX = None
pub static mut IX_KEY0: [u8; IXC] = [0; IXC];
pub static mut IX_FULL: usize = 0; // the first IX_FULL inserts answer NeedReindex
pub fn stub_ix_insert(t: &IndexTable, key: &Key, address: Address, sub_index: Option<usize>, _l: &mut LogWriter) -> Result<PlanOutcome> {
	unsafe {
		assert!(IX_N < IXC, "harness bound: index calls");
		IX_KIND[IX_N] = 1; IX_BITS[IX_N] = t.id.index_bits(); IX_ADDR[IX_N] = address.as_u64(); IX_SUB[IX_N] = sub_index.unwrap_or(usize::MAX); IX_KEY0[IX_N] = key[0];
		IX_N += 1;
		if IX_N <= IX_FULL { Ok(PlanOutcome::NeedReindex) } else { Ok(PlanOutcome::Written) }
	}
}
pub fn stub_ix_remove(t: &IndexTable, key: &Key, sub_index: usize, _l: &mut LogWriter) -> Result<PlanOutcome> {
	unsafe {
		assert!(IX_N < IXC, "harness bound: index calls");
		IX_KIND[IX_N] = 2; IX_BITS[IX_N] = t.id.index_bits(); IX_ADDR[IX_N] = 0; IX_SUB[IX_N] = sub_index; IX_KEY0[IX_N] = key[0];
		IX_N += 1;
		Ok(PlanOutcome::Written)
	}
}
fn wx_reset() { unsafe { WX_CALLS = 0; WN_CALLS = 0; IX_N = 0; IX_FULL = 0; WX_NEWADDR = kani::any(); WX_SHAPE = kani::any(); kani::assume(WX_SHAPE < 3); } }

/// op: 0 Set, 1 Reference, 2 Dereference. The key exists: one confirmed candidate in the current index (found_in = 0) or in
/// the queued 16-bit index (found_in = 1).
fn write_existing_case(op: u8, found_in: usize) {
	let (col, ids) = chain_column(2);
	wx_reset();
	unsafe {
		CAND_N = 1; CAND_TABLE[0] = ids[found_in]; CAND_SUB[0] = kani::any(); kani::assume(CAND_SUB[0] < 64); CAND_OK[0] = true; GET_CALLS = 0;
	}
	let key: Key = kani::any();
	let overlays = vl::new_overlays();
	let mut w = LogWriter::new(&overlays, 1);
	let change: Operation<Key, RcValue> = match op { 0 => Operation::Set(key, vec![1u8, 2, 3].into()), 1 => Operation::Reference(key), _ => Operation::Dereference(key) };
	let r = col.write_plan(&change, &mut w);
	assert!(r.is_ok(), "C14.W an operation on an existing key succeeds");
	unsafe {
		assert!(WX_CALLS == 1 && WN_CALLS == 0, "C14.W an existing key is updated in place, never inserted a second time");
		assert!(WX_ARG_ADDR == cand_address(0).as_u64(), "C14.W the value operation goes to the address the index entry names");
		assert!(WX_ARG_RC == false, "C14.W the column's reference-counting mode is passed on");
		match WX_SHAPE {
			0 => assert!(IX_N == 0, "C14.W a value updated in place leaves the index alone"),
			1 => {
				assert!(IX_N == 1 && IX_KIND[0] == 1, "C14.W a value that moved gets its index entry rewritten in the same record");
				assert!(IX_BITS[0] == 18, "C14.W the rewritten entry goes to the current index");
				assert!(IX_ADDR[0] == WX_NEWADDR && IX_KEY0[0] == key[0], "C14.W the rewritten entry names the value's new address");
				if found_in == 0 { assert!(IX_SUB[0] == CAND_SUB[0], "C14.W an entry found in the current index is overwritten in its slot (no duplicate)"); }
				else { assert!(IX_SUB[0] == usize::MAX, "C14.W an entry found in a queued older index is re-inserted into the current one"); }
			},
			_ => {
				assert!(IX_N == 1 && IX_KIND[0] == 2, "C14.W a removed value takes its index entry with it in the same record");
				assert!(IX_BITS[0] == [18u8, 16][found_in] && IX_SUB[0] == CAND_SUB[0] && IX_KEY0[0] == key[0], "C14.W the entry is removed from the index and slot where it was found");
			},
		}
		kani::cover!(WX_SHAPE == 1);
		kani::cover!(WX_SHAPE == 2);
	}
	std::mem::forget(r); std::mem::forget(change); std::mem::forget(w); std::mem::forget(overlays); std::mem::forget(col);
}

/// The key does not exist (every candidate belongs to another key).
fn write_missing_case(op: u8) {
	let col = mini_plain(false);
	{
		let mut t = col.tables.write();
		let old = std::mem::replace(&mut t.index, crate::index::verif_kani::table(18));
		std::mem::forget(old);
	}
	wx_reset();
	let id18 = crate::index::verif_kani::table(18).id.as_u16();
	unsafe {
		CAND_N = 1; CAND_TABLE[0] = id18; CAND_SUB[0] = 7; CAND_OK[0] = false; GET_CALLS = 0;
		IX_FULL = kani::any(); kani::assume(IX_FULL <= 2);
	}
	let key: Key = kani::any();
	let overlays = vl::new_overlays();
	let mut w = LogWriter::new(&overlays, 1);
	let change: Operation<Key, RcValue> = match op { 0 => Operation::Set(key, vec![1u8, 2, 3].into()), 1 => Operation::Reference(key), 2 => Operation::Dereference(key),
		3 => Operation::ReferenceTree(key), _ => Operation::DereferenceTree(key) };
	let r = col.write_plan(&change, &mut w);
	unsafe {
		assert!(WX_CALLS == 0, "C14.W no value of another key is touched");
		if op == 0 {
			let full = IX_FULL;
			assert!(WN_CALLS == 1, "C09.N a new key's value is written exactly once, however often the index has to grow");
			assert!(IX_N == full + 1, "C09.N the index insertion is retried once per growth");
			let t = col.tables.read();
			let q = col.reindex.read();
			assert!(t.index.id.index_bits() as usize == 18 + full, "C09.N each full page doubles the index");
			assert!(q.queue.len() == full, "C09.N every outgrown index is queued for migration, none is dropped");
			if full >= 1 { assert!(matches!(q.queue.front(), Some(ReindexEntry::Index(x)) if x.id.index_bits() == 18), "C09.N the oldest index is migrated first"); }
			if full == 2 { assert!(matches!(q.queue.back(), Some(ReindexEntry::Index(x)) if x.id.index_bits() == 19), "C09.N queue order follows growth order"); }
			assert!(IX_BITS[full] as usize == 18 + full && IX_ADDR[full] == WX_NEWADDR && IX_SUB[full] == usize::MAX && IX_KEY0[full] == key[0], "C09.N the entry finally lands in the current index with the value's address");
			assert!(matches!(r, Ok(PlanOutcome::NeedReindex)) == (full > 0) && matches!(r, Ok(PlanOutcome::Written)) == (full == 0), "C09.N growth is reported to the caller");
		} else if op <= 2 {
			assert!(matches!(r, Ok(PlanOutcome::Skipped)) && WN_CALLS == 0 && IX_N == 0, "C14.W reference / dereference of a missing key changes nothing");
		} else {
			assert!(r.is_err() && WN_CALLS == 0 && IX_N == 0, "C14.W tree operations are refused on a hash column without side effects");
		}
		// witness (one program point for every operation kind: a cover inside one arm is unreachable in the other harnesses)
		kani::cover!(if op == 0 { IX_FULL == 2 } else { WX_CALLS == 0 });
	}
	std::mem::forget(r); std::mem::forget(change); std::mem::forget(w); std::mem::forget(overlays); std::mem::forget(col);
}

macro_rules! c14_w {
	($name:ident, $f:ident ( $($a:expr),* )) => {
		crate::verif_tbl! {
			#[kani::proof]
			#[kani::unwind(12)]
			#[kani::stub(crate::index::IndexTable::get, stub_index_get)]
			#[kani::stub(crate::table::ValueTable::has_key_at, stub_has_key_at)]
			#[kani::stub(crate::column::Column::write_existing_value_plan, stub_write_existing)]
			#[kani::stub(crate::column::Column::write_new_value_plan, stub_write_new)]
			#[kani::stub(crate::index::IndexTable::write_insert_plan, stub_ix_insert)]
			#[kani::stub(crate::index::IndexTable::write_remove_plan, stub_ix_remove)]
			fn $name() { $f($($a),*) }
		}
	};
}
c14_w!(c14_w_existing_set_in_current, write_existing_case(0, 0));
c14_w!(c14_w_existing_set_in_queued, write_existing_case(0, 1));
c14_w!(c14_w_existing_dereference_in_current, write_existing_case(2, 0));
c14_w!(c14_w_existing_dereference_in_queued, write_existing_case(2, 1));
c14_w!(c14_w_existing_reference_in_current, write_existing_case(1, 0));
c14_w!(c09_n_new_key_set_grows_index, write_missing_case(0));
c14_w!(c14_w_missing_reference, write_missing_case(1));
c14_w!(c14_w_missing_dereference, write_missing_case(2));
c14_w!(c14_w_missing_tree_op, write_missing_case(3));

// =====================================================================================
// C20.W: the index walk behind migration and validation (HashColumn::iter_index_internal): every non-empty entry of every
// page from the start page to the last page of the index is reported exactly once, in (page, slot) order, with the key
// rebuilt from (page number, partial key, stored key tail), the stored counter and the stored value; an entry whose value
// is missing is reported as corrupted (and the walk goes on if the callback says so); the callback can stop the walk.
// `IndexTable::entries` = the harness's two sparse pages (holes before, between and after live entries),
// `ValueTable::get_with_meta` = the harness's value store (symbolic counter and key tail per value) — both contracts
// are decided on their own (C09/C19 page reads, C06.S2 query with Fetch).
// =====================================================================================
pub const WK: usize = 6;
pub const WK_SLOTS: [(usize, usize); WK] = [(0, 0), (0, 5), (0, 63), (1, 1), (1, 2), (1, 40)];
pub static mut WK_RC: [u32; WK] = [0; WK];
pub static mut WK_PK: [[u8; 26]; WK] = [[0; 26]; WK];
pub static mut WK_MISSING: usize = 99;
pub static mut WK_SEEN: usize = 0;
pub static mut WK_KIND: [u8; 8] = [0; 8]; // 1 item, 2 corrupted
pub static mut WK_KEY: [[u8; 32]; 8] = [[0; 32]; 8];
pub static mut WK_SRC: [u32; 8] = [0; 8];
pub static mut WK_VAL: [u8; 8] = [0; 8];
pub static mut WK_VLEN: [usize; 8] = [0; 8];
pub static mut WK_AT: [(u64, u32); 8] = [(0, 0); 8];
fn wk_entry(k: usize) -> crate::index::Entry { crate::index::verif_kani::mk_entry(Address::new(k as u64 + 1, (k % 3) as u8), 0x1234 + k as u64, 16) }

pub fn stub_get_with_meta<Q: LogQuery>(t: &ValueTable, index: u64, _log: &Q) -> Result<Option<(Value, u32, [u8; 26], bool)>> {
	assert!(index >= 1 && index <= WK as u64, "C20.W values are fetched only at addresses that came out of an index entry");
	let k = (index - 1) as usize;
	assert!(t.id.size_tier() as usize == k % 3, "C20.W the value is fetched from the size tier named by the entry's address");
	unsafe {
		if k == WK_MISSING { return Ok(None) }
		let mut v = Vec::with_capacity(1);
		v.push(k as u8 + 100);
		Ok(Some((v, WK_RC[k], WK_PK[k], false)))
	}
}
pub fn stub_dump_entry(_t: &ValueTable, _index: u64) -> Result<Vec<u8>> { Ok(Vec::new()) }

/// `left`: pages between the start page and the end of the index (1 or 2); `missing`: which live entry has no value (99: none);
/// `stop_after`: the callback answers "stop" at its n-th call (0: never).
fn walk_case(left: u64, missing: usize, stop_after: usize) {
	let col = mini_plain(false);
	let src = crate::index::verif_kani::table(16);
	let total = src.id.total_chunks();
	let start = total - left;
	unsafe {
		RX_BASE = start;
		let mut p = 0;
		while p < 2 { let mut i = 0; while i < 64 { RX_PAGES[p][i] = 0; i += 1; } p += 1; }
		let mut k = 0;
		while k < WK {
			let (p, s) = WK_SLOTS[k];
			// with one page left the walk starts at the harness's page 0 = the last page of the index
			RX_PAGES[p][s] = wk_entry(k).as_u64();
			WK_RC[k] = kani::any();
			WK_PK[k] = kani::any();
			k += 1;
		}
		WK_MISSING = missing;
		WK_SEEN = 0;
	}
	let log = crate::log::verif_kani::mk_log_plain(true);
	let r = col.iter_index_internal(&log, |st| {
		unsafe {
			let n = WK_SEEN;
			if n < 8 {
				match st {
					IterStateOrCorrupted::Item(it) => {
						WK_KIND[n] = 1; WK_KEY[n] = it.key; WK_SRC[n] = it.rc; WK_VLEN[n] = it.value.len();
						WK_VAL[n] = if it.value.len() > 0 { it.value[0] } else { 0 };
						WK_AT[n] = (it.item_index, 0);
						assert!(it.total_items == crate::index::verif_kani::table(16).id.total_chunks(), "C20.W progress is reported against the number of pages");
						std::mem::forget(it);
					},
					IterStateOrCorrupted::Corrupted(c) => { WK_KIND[n] = 2; WK_AT[n] = (c.chunk_index, c.sub_index); std::mem::forget(c); },
				}
			}
			WK_SEEN += 1;
			Ok(WK_SEEN != stop_after)
		}
	}, start);
	assert!(r.is_ok(), "C20.W the walk itself does not fail");
	// expected sequence: live entries of the pages [start, total) in (page, slot) order
	let mut want = 0usize;
	let mut k = 0;
	while k < WK {
		let (p, s) = WK_SLOTS[k];
		if (p as u64) < left && (stop_after == 0 || want < stop_after) {
			unsafe {
				assert!(want < WK_SEEN, "C20.W every non-empty entry of every page up to the end of the index is reported");
				let page = start + p as u64;
				if k == missing {
					assert!(WK_KIND[want] == 2 && WK_AT[want] == (page, s as u32), "C20.W an entry without value is reported as corrupted with its page and slot");
				} else {
					assert!(WK_KIND[want] == 1, "C20.W an entry with a value is reported as an item");
					let kp = src.recover_key_prefix(page, wk_entry(k));
					let b: usize = kani::any();
					kani::assume(b < 32);
					if b < 6 { assert!(WK_KEY[want][b] == kp[b], "C20.W key bytes 0..6 are rebuilt from (page number, partial key)"); }
					else { assert!(WK_KEY[want][b] == WK_PK[k][b - 6], "C20.W key bytes 6..32 are the key tail stored with the value"); }
					assert!(WK_SRC[want] == WK_RC[k], "C20.W the stored reference count is reported");
					assert!(WK_VLEN[want] == 1 && WK_VAL[want] == k as u8 + 100, "C20.W the value stored at the entry's address is reported");
					assert!(WK_AT[want].0 == page, "C20.W the item is attributed to its page");
				}
			}
			want += 1;
		}
		k += 1;
	}
	assert!(unsafe { WK_SEEN } == want, "C20.W nothing but the live entries is reported, each once, and a stopped walk reports nothing further");
	kani::cover!(want >= 3);
	std::mem::forget(r); std::mem::forget(log); std::mem::forget(col); std::mem::forget(src);
}

macro_rules! c20_w {
	($name:ident, $left:expr, $missing:expr, $stop:expr) => {
		crate::verif_tbl! {
			#[kani::proof]
			#[kani::unwind(66)]
			#[kani::stub(crate::index::IndexTable::entries, stub_entries)]
			#[kani::stub(crate::table::ValueTable::get_with_meta, stub_get_with_meta)]
			#[kani::stub(crate::table::ValueTable::dump_entry, stub_dump_entry)]
			fn $name() { walk_case($left, $missing, $stop) }
		}
	};
}
c20_w!(c20_w_index_walk_last_two_pages, 2, 99, 0);
c20_w!(c20_w_index_walk_last_page, 1, 99, 0);
c20_w!(c20_w_index_walk_missing_value, 2, 1, 0);
c20_w!(c20_w_index_walk_stopped, 2, 99, 4);

// =====================================================================================
// C06.M: an overwrite whose new value belongs to another size class (Column::write_existing_value_plan, Set arm on a plain
// column). The table operations are contracts that record their calls and assert the tables' own precondition — a fixed
// table only takes values that fit its entry, the multipart table only takes values that need a chain (its reader treats a
// first part without the multi-part head marker as "no value", src/table.rs for_parts) — their effect on the bytes is
// decided by C06.S2-S4. Real code: tier selection (Column::compress over the harness's three tables) and the glue:
// wherever the result says the value lives, a table operation put it there, and storage it no longer occupies was released.
// =====================================================================================
pub static mut TM_N: usize = 0;
pub static mut TM_KIND: [u8; 3] = [0; 3]; // 1 replace, 2 remove, 3 insert
pub static mut TM_TIER: [u8; 3] = [0; 3];
pub static mut TM_AT: [u64; 3] = [0; 3];
pub static mut TM_LEN: [usize; 3] = [0; 3];
pub static mut TM_NEW: u64 = 0;
fn tm_record(kind: u8, t: &ValueTable, at: u64, len: usize) { unsafe { assert!(TM_N < 3, "harness: at most three table operations"); TM_KIND[TM_N] = kind; TM_TIER[TM_N] = t.id.size_tier(); TM_AT[TM_N] = at; TM_LEN[TM_N] = len; TM_N += 1; } }
fn tm_fits(t: &ValueTable, key: &TableKey, len: usize) {
	let stored = len + key.encoded_size();
	if vt::is_multipart(t) { assert!(stored > vt::entry_size_of(t) - 2, "C06.M the multipart table only receives values that need more than one part (a single-part entry there reads back as absent)"); }
	else { assert!(stored <= vt::entry_size_of(t) - 2, "C06.M a fixed-size table only receives values that fit one entry"); }
}
pub fn stub_tm_replace(t: &ValueTable, index: u64, key: &TableKey, value: &[u8], _l: &mut LogWriter, _c: bool) -> Result<()> { tm_fits(t, key, value.len()); tm_record(1, t, index, value.len()); Ok(()) }
pub fn stub_tm_remove(t: &ValueTable, index: u64, _l: &mut LogWriter) -> Result<()> { tm_record(2, t, index, 0); Ok(()) }
pub fn stub_tm_insert(t: &ValueTable, key: &TableKey, value: &[u8], _l: &mut LogWriter, _c: bool) -> Result<u64> { tm_fits(t, key, value.len()); tm_record(3, t, unsafe { TM_NEW }, value.len()); Ok(unsafe { TM_NEW }) }

fn tier_move_case<const N: usize>(old_tier: u8) {
	let tables = [vt::mk(ValueTableId::new(0, 0), 32, false, false, 8), vt::mk(ValueTableId::new(0, 1), 64, false, false, 8), vt::mk(ValueTableId::new(0, 2), 64, true, false, 8)];
	let overlays = vl::new_overlays();
	let mut w = LogWriter::new(&overlays, 1);
	let keyb: Key = kani::any();
	let key = TableKey::Partial(keyb);
	let at: u64 = kani::any();
	kani::assume(at >= 1 && at < 8);
	unsafe { TM_N = 0; TM_NEW = kani::any(); kani::assume(TM_NEW >= 1 && TM_NEW < 8); }
	let address = Address::new(at, old_tier);
	let compression = Compress::new(crate::compress::CompressionType::NoCompression, u32::MAX);
	let tref = TablesRef { tables: &tables, compression: &compression, col: 0, preimage: false, ref_counted: false };
	let newv: [u8; N] = kani::any();
	let change: Operation<Key, [u8; N]> = Operation::Set(keyb, newv);
	let (o, a) = Column::write_existing_value_plan(&key, tref, address, &change, &mut w, None, false).unwrap();
	unsafe {
		match a {
			None => {
				assert!(matches!(o, Some(PlanOutcome::Written)), "C06.M an overwrite that keeps its address reports the write");
				assert!(TM_N == 1 && TM_KIND[0] == 1 && TM_TIER[0] == old_tier && TM_AT[0] == at && TM_LEN[0] == N, "C06.M an overwrite that keeps its address rewrites exactly that slot with the new value");
			},
			Some(na) => {
				assert!(o.is_none(), "C06.M a moved value reports its new address instead of an outcome");
				assert!(TM_N == 2, "C06.M a move is one release and one insertion");
				let (ri, ii) = if TM_KIND[0] == 2 { (0, 1) } else { (1, 0) };
				assert!(TM_KIND[ri] == 2 && TM_TIER[ri] == old_tier && TM_AT[ri] == at, "C06.M the storage of the old value is released");
				assert!(TM_KIND[ii] == 3 && TM_LEN[ii] == N, "C06.M the new value is inserted once");
				assert!(na.size_tier() == TM_TIER[ii] && na.offset() == TM_AT[ii], "C06.M the reported address is where the new value was inserted");
			},
		}
	}
	kani::cover!(unsafe { TM_N } >= 1);
	std::mem::forget(change); std::mem::forget(w); std::mem::forget(tables); std::mem::forget(overlays);
}

macro_rules! c06_m {
	($name:ident, $n:expr, $tier:expr) => {
		crate::verif_tbl! {
			#[kani::proof]
			#[kani::unwind(102)]
			#[kani::stub(crate::table::ValueTable::write_replace_plan, stub_tm_replace)]
			#[kani::stub(crate::table::ValueTable::write_remove_plan, stub_tm_remove)]
			#[kani::stub(crate::table::ValueTable::write_insert_plan, stub_tm_insert)]
			fn $name() { tier_move_case::<$n>($tier) }
		}
	};
}
// new length (Partial key: 32-byte entries hold 4 value bytes, 64-byte entries 36, longer values are chained) x old tier
c06_m!(c06_m_len2_from_fixed64, 2, 1);
c06_m!(c06_m_len2_from_multipart, 2, 2);
c06_m!(c06_m_len4_from_fixed64, 4, 1);
c06_m!(c06_m_len5_from_fixed32, 5, 0);
c06_m!(c06_m_len36_from_multipart, 36, 2);
c06_m!(c06_m_len37_from_fixed64, 37, 1);
c06_m!(c06_m_len37_from_multipart, 37, 2);
c06_m!(c06_m_len8_from_fixed64, 8, 1);

// =====================================================================================
// C13.V: HashColumn::validate_plan is total on every action a checksum-valid record can carry: an action for a table
// this column does not have (a ref-count page on a column without ref-count table, an index table older than the current
// one that is not queued for migration, a table drop or a record marker) is refused with Corruption — never a panic — and
// page / value payloads are handed to exactly the table the action names (table-level validation by contract: C13.P2).
// =====================================================================================
pub static mut VP_CALLS: usize = 0;
pub static mut VP_KIND: u8 = 0; // 1 index, 2 value, 3 ref count
pub static mut VP_TABLE: u16 = 0;
pub static mut VP_INDEX: u64 = 0;
pub fn stub_ix_validate(t: &IndexTable, index: u64, _l: &mut LogReader) -> Result<()> { unsafe { VP_CALLS += 1; VP_KIND = 1; VP_TABLE = t.id.as_u16(); VP_INDEX = index; } Ok(()) }
pub fn stub_vt_validate(t: &ValueTable, index: u64, _l: &mut LogReader) -> Result<()> { unsafe { VP_CALLS += 1; VP_KIND = 2; VP_TABLE = t.id.as_u16(); VP_INDEX = index; } Ok(()) }
pub fn stub_rc_validate(t: &RefCountTable, index: u64, _l: &mut LogReader) -> Result<()> { unsafe { VP_CALLS += 1; VP_KIND = 3; VP_TABLE = t.id.as_u16(); VP_INDEX = index; } Ok(()) }

/// which: 0 InsertRefCount (column has no ref-count table), 1 InsertIndex for an older index that is not queued,
/// 2 InsertIndex for the current index, 3 InsertIndex for a queued older index, 4 InsertValue, 5 record markers / drops
fn validate_dispatch_case(which: u8) {
	let (col, _ids) = chain_column(if which == 3 { 2 } else { 0 });
	let index: u64 = kani::any();
	unsafe { VP_CALLS = 0; }
	let bits: u8 = kani::any();
	let k: u8 = kani::any();
	kani::assume(k < 4);
	let r = vl::with_reader(|rd| match which {
		0 => { kani::assume(bits >= 16 && bits <= 40); col.validate_plan(LogAction::InsertRefCount(crate::log::InsertRefCountAction { table: RefCountTableId::new(0, bits), index }), rd) },
		1 => { kani::assume(bits >= 16 && bits < 18); col.validate_plan(LogAction::InsertIndex(crate::log::InsertIndexAction { table: IndexTableId::new(0, bits), index }), rd) },
		2 => col.validate_plan(LogAction::InsertIndex(crate::log::InsertIndexAction { table: IndexTableId::new(0, 18), index }), rd),
		3 => { kani::assume(bits == 16 || bits == 17); col.validate_plan(LogAction::InsertIndex(crate::log::InsertIndexAction { table: IndexTableId::new(0, bits), index }), rd) },
		4 => { kani::assume(bits < 3); col.validate_plan(LogAction::InsertValue(crate::log::InsertValueAction { table: ValueTableId::new(0, bits), index }), rd) },
		_ => col.validate_plan(match k { 0 => LogAction::BeginRecord, 1 => LogAction::EndRecord, 2 => LogAction::DropTable(IndexTableId::new(0, 16)), _ => LogAction::DropRefCountTable(RefCountTableId::new(0, 16)) }, rd),
	});
	unsafe {
		match which {
			0 | 1 | 5 => { assert!(matches!(r, Err(Error::Corruption(_))), "C13.V an action for a table this column does not have is refused as corruption"); assert!(VP_CALLS == 0, "C13.V a refused action validates no payload"); },
			2 => assert!(r.is_ok() && VP_CALLS == 1 && VP_KIND == 1 && VP_TABLE == IndexTableId::new(0, 18).as_u16() && VP_INDEX == index, "C13.V an index page is validated against the current index table"),
			3 => assert!(r.is_ok() && VP_CALLS == 1 && VP_KIND == 1 && VP_TABLE == IndexTableId::new(0, bits).as_u16() && VP_INDEX == index, "C13.V an index page of a queued older index is validated against that table"),
			_ => assert!(r.is_ok() && VP_CALLS == 1 && VP_KIND == 2 && VP_TABLE == ValueTableId::new(0, bits).as_u16() && VP_INDEX == index, "C13.V a value entry is validated against the size tier the action names"),
		}
	}
	kani::cover!(unsafe { VP_CALLS } == if which >= 2 && which <= 4 { 1 } else { 0 });
	std::mem::forget(r); std::mem::forget(col);
}
macro_rules! c13_v {
	($name:ident, $which:expr) => {
		crate::verif_tbl! {
			#[kani::proof]
			#[kani::unwind(12)]
			#[kani::stub(crate::index::IndexTable::validate_plan, stub_ix_validate)]
			#[kani::stub(crate::table::ValueTable::validate_plan, stub_vt_validate)]
			#[kani::stub(crate::ref_count::RefCountTable::validate_plan, stub_rc_validate)]
			#[kani::stub(crc32fast::Hasher::internal_new_specialized, crate::verif_common::no_specialized_crc)]
			#[kani::stub(<std::os::fd::OwnedFd as std::ops::Drop>::drop, crate::verif_common::fd_drop_noop)]
			fn $name() { validate_dispatch_case($which) }
		}
	};
}
c13_v!(c13_v_ref_count_action_without_table, 0);
c13_v!(c13_v_index_action_too_old, 1);
c13_v!(c13_v_index_action_current, 2);
c13_v!(c13_v_index_action_queued, 3);
c13_v!(c13_v_value_action, 4);
c13_v!(c13_v_marker_and_drop_actions, 5);
