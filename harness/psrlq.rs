//! Pure model of the one SSE2 intrinsic Kani 0.68 does not support (used as a stub; validated natively by /verif/native).
/// Model of SSE2 PSRLQ (`_mm_srl_epi64`): both 64-bit lanes shifted right logically by the low 64 bits
/// of `count`; a count above 63 yields 0. (llvm.x86.sse2.psrl.q is not supported by Kani 0.68.)
pub fn model_mm_srl_epi64(a: std::arch::x86_64::__m128i, count: std::arch::x86_64::__m128i) -> std::arch::x86_64::__m128i {
	let a: [u64; 2] = unsafe { std::mem::transmute(a) };
	let c: [u64; 2] = unsafe { std::mem::transmute(count) };
	let r = if c[0] > 63 { [0u64, 0u64] } else { [a[0] >> c[0], a[1] >> c[0]] };
	unsafe { std::mem::transmute(r) }
}

