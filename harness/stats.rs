//! Helper: an empty ColumnStats (private fields) for struct-literal columns.
#![allow(dead_code, unused_imports)]
use super::*;
pub fn tiny() -> ColumnStats {
	ColumnStats {
		value_histogram: Vec::new(),
		query_histogram: Vec::new(),
		oversized: AtomicU64::new(0),
		oversized_bytes: AtomicU64::new(0),
		total_values: AtomicU64::new(0),
		total_bytes: AtomicU64::new(0),
		commits: AtomicU64::new(0),
		inserted_new: AtomicU64::new(0),
		inserted_overwrite: AtomicU64::new(0),
		reference_increase_hit: AtomicU64::new(0),
		reference_increase_miss: AtomicU64::new(0),
		removed_hit: AtomicU64::new(0),
		removed_miss: AtomicU64::new(0),
		queries_miss: AtomicU64::new(0),
		uncompressed_bytes: AtomicU64::new(0),
		compression_delta: Vec::new(),
	}
}
