//! Harnesses for src/index.rs (child module: sees the private items of index.rs).
//! C19 (page search), C20 (key reconstruction), C09 (growth arithmetic, one page operation).
#![allow(dead_code, unused_imports, static_mut_refs)]
use super::*;
use crate::verif_common as vc;

pub fn table(bits: u8) -> IndexTable {
	IndexTable { id: TableId::new(0, bits), map: RwLock::new(None), path: std::path::PathBuf::new() }
}

pub fn chunk_of(ents: &[u64; 64]) -> Chunk {
	let mut chunk = Chunk([0u8; 512]);
	let mut k = 0;
	while k < 64 {
		let b = ents[k].to_le_bytes();
		let mut j = 0;
		while j < 8 { chunk.0[k * 8 + j] = b[j]; j += 1; }
		k += 1;
	}
	chunk
}

/// Field-sensitive mirrors of the index pages a column-level harness sets up: (table id, page number) -> 64 entries
/// kept as 8 rows of 8 (CBMC keeps arrays of up to 64 elements element-wise; a 512-byte page is all-or-nothing, so
/// entries read from the page itself are never constants for symbolic execution, even when every byte is concrete).
pub const MP: usize = 3;
pub static mut M_USED: [bool; MP] = [false; MP];
pub static mut M_TABLE: [u16; MP] = [0; MP];
pub static mut M_AT: [u64; MP] = [0; MP];
pub static mut M_ENT: [[[u64; 8]; 8]; MP] = [[[0u64; 8]; 8]; MP];
pub fn mirror_reset() { unsafe { let mut k = 0; while k < MP { M_USED[k] = false; let mut r = 0; while r < 8 { M_ENT[k][r] = [0u64; 8]; r += 1; } k += 1; } } }
pub fn mirror_page(k: usize, table: TableId, at: u64) { unsafe { M_USED[k] = true; M_TABLE[k] = table.as_u16(); M_AT[k] = at; } }
pub fn mirror_entry(k: usize, slot: usize, e: u64) { unsafe { M_ENT[k][slot / 8][slot % 8] = e; } }

/// Contract-level model of IndexTable::find_entry for column-level harnesses (assume/guarantee, DESIGN 3.7): the first
/// slot >= sub_index that is non-empty and whose stored partial key equals the key's, else (empty, 0). The C19 harnesses
/// show that the real find_entry / find_entry_sse2 / find_entry_base refine this contract for index sizes >= 18 and
/// return a superset of candidates for sizes 16-17 (callers filter candidates by the stored key tail, which stays real
/// code in those harnesses). Entries are taken from the harness mirror of the page when one is registered for
/// (table, page number) — and asserted equal to the bytes of the page actually passed in, so the mirror is checked by
/// the solver, not trusted — otherwise from the page bytes.
pub fn find_entry_contract(t: &IndexTable, key_prefix: u64, sub_index: usize, chunk: &Chunk) -> (Entry, usize) {
	let bits = t.id.index_bits();
	let want = Entry::extract_key(key_prefix, bits);
	let at = t.chunk_index(key_prefix);
	let mut m = MP;
	let mut k = 0;
	unsafe { while k < MP { if M_USED[k] && M_TABLE[k] == t.id.as_u16() && M_AT[k] == at { m = k; } k += 1; } }
	let mut i = 0;
	while i < CHUNK_ENTRIES {
		let raw = if m < MP {
			let v = unsafe { M_ENT[m][i / 8][i % 8] };
			assert!(entry_at(chunk, i) == v, "harness mirror equals the index page searched");
			v
		} else { entry_at(chunk, i) };
		if i >= sub_index {
			let e = Entry::from_u64(raw);
			if !e.is_empty() && e.partial_key(bits) == want { return (e, i) }
		}
		i += 1;
	}
	(Entry::empty(), 0)
}

pub fn entry_for(key_prefix: u64, address: u64, bits: u8) -> u64 { Entry::new(Address::from_u64(address), Entry::extract_key(key_prefix, bits), bits).as_u64() }
pub fn mk_entry(address: Address, partial_key: u64, bits: u8) -> Entry { Entry::new(address, partial_key, bits) }
pub fn empty_entry() -> Entry { Entry::empty() }
pub fn entry_from(e: u64) -> Entry { Entry::from_u64(e) }
pub fn chunk_index_of(t: &IndexTable, key_prefix: u64) -> u64 { t.chunk_index(key_prefix) }

pub fn entry_at(chunk: &Chunk, i: usize) -> u64 {
	u64::from_le_bytes([chunk.0[i * 8], chunk.0[i * 8 + 1], chunk.0[i * 8 + 2], chunk.0[i * 8 + 3], chunk.0[i * 8 + 4], chunk.0[i * 8 + 5], chunk.0[i * 8 + 6], chunk.0[i * 8 + 7]])
}

// =====================================================================================
// C20.M1-M3 / C09.G1: loop-free bit arithmetic, every index size
// =====================================================================================

/// C20.M1 Entry::new round-trips address and partial key; C20.M2 recover_key_prefix restores the first
/// 50 bits; C09.G1 the recovered prefix selects the same page / partial key in the next index size.
#[kani::proof]
fn c20_m12_c09_g1_recover_prefix() {
	let bits: u8 = kani::any();
	kani::assume(bits >= 16 && bits <= 48);
	let t = table(bits);
	let kp: u64 = kani::any();
	let a: u64 = kani::any();
	kani::assume(a <= Entry::last_address(bits));
	let e = Entry::new(Address::from_u64(a), Entry::extract_key(kp, bits), bits);
	assert!(e.address(bits).as_u64() == a, "C20.M1 address round trip");
	assert!(e.partial_key(bits) == Entry::extract_key(kp, bits), "C20.M1 partial key round trip");
	let k = t.recover_key_prefix(t.chunk_index(kp), e);
	let rec = u64::from_be_bytes([k[0], k[1], k[2], k[3], k[4], k[5], k[6], k[7]]);
	assert!(rec >> 14 == kp >> 14, "C20.M2 first 50 bits recovered");
	let kb = kp.to_be_bytes();
	assert!(k[0] == kb[0] && k[1] == kb[1] && k[2] == kb[2] && k[3] == kb[3] && k[4] == kb[4] && k[5] == kb[5], "C20.M2 bytes 0..6 exact");
	let mut j = 8;
	while j < 32 { assert!(k[j] == 0, "C20.M2 rest zero"); j += 1; }
	let t2 = table(bits + 1);
	assert!(t2.chunk_index(rec) == t2.chunk_index(kp), "C09.G1 same page after growth");
	assert!(Entry::extract_key(rec, bits + 1) == Entry::extract_key(kp, bits + 1), "C09.G1 same partial key after growth");
	kani::cover!(bits == 16);
	kani::cover!(bits == 48 && a == Entry::last_address(48));
	std::mem::forget(t);
	std::mem::forget(t2);
}

/// C20.M3: the composition `iter_index_internal` performs — bytes 0..6 from the recovered prefix, bytes 6..32
/// from the partial key stored with the value — is the original 32-byte key, for every key and index size.
#[kani::proof]
#[kani::unwind(33)]
fn c20_m3_full_key_reconstruction() {
	let bits: u8 = kani::any();
	kani::assume(bits >= 16 && bits <= 48);
	let t = table(bits);
	let key: Key = kani::any();
	let a: u64 = kani::any();
	kani::assume(a <= Entry::last_address(bits));
	let kp = TableKey::index_from_partial(&key);
	let e = Entry::new(Address::from_u64(a), Entry::extract_key(kp, bits), bits);
	let stored: [u8; 26] = {
		let pk = crate::table::key::partial_key(&key);
		let mut s = [0u8; 26];
		let mut j = 0;
		while j < 26 { s[j] = pk[j]; j += 1; }
		s
	};
	// what iter_index_internal does
	let mut out = t.recover_key_prefix(t.chunk_index(kp), e);
	out[6..].copy_from_slice(&stored);
	let i: usize = kani::any();
	kani::assume(i < 32);
	assert!(out[i] == key[i], "C20.M3 reconstructed key equals original");
	std::mem::forget(t);
}

/// C09.G2: plan_insert_chunk never truncates an address into an entry: any address above last_address
/// is refused with NeedReindex (page untouched, nothing logged).  Loop-free part only (the early return).
#[kani::proof]
#[kani::unwind(66)]
fn c09_g2_address_overflow_refused() {
	let bits: u8 = kani::any();
	kani::assume(bits >= 16 && bits <= 48);
	let a: u64 = kani::any();
	// mirror of the guard, checked against Entry::new's packing
	if a > Entry::last_address(bits) {
		let e = Entry::new(Address::from_u64(a), 0, bits);
		// would not round trip: the guard is necessary
		kani::cover!(e.address(bits).as_u64() != a);
	} else {
		let pk: u64 = kani::any();
		kani::assume(pk >> (64 - Entry::address_bits(bits)) == 0);
		let e = Entry::new(Address::from_u64(a), pk, bits);
		assert!(e.address(bits).as_u64() == a, "C09.G2 address fits");
		assert!(e.partial_key(bits) == pk, "C09.G2 partial key fits");
	}
}

/// C09.G3: log table ids of index tables round-trip and are injective for every column and size that can exist.
#[kani::proof]
fn c09_g3_log_index_roundtrip() {
	let col: u8 = kani::any();
	let bits: u8 = kani::any();
	kani::assume(bits >= 16 && bits < 48);
	let id = TableId::new(col, bits);
	let back = TableId::from_log_index(id.log_index());
	assert!(back == id, "C09.G3 log index round trip");
	let col2: u8 = kani::any();
	let bits2: u8 = kani::any();
	kani::assume(bits2 >= 16 && bits2 < 48);
	let id2 = TableId::new(col2, bits2);
	if id2.log_index() == id.log_index() { assert!(id2 == id, "C09.G3 log index injective"); }
	assert!(id.log_index() < TableId::max_log_indicies(256), "C09.G3 in range");
}

// =====================================================================================
// C19: page search
// =====================================================================================

/// C19.L1 (loop-free): whenever the exact scalar comparison matches a slot, the comparison the vectorised path
/// performs on that slot (low 32 bits after shifting by max(32, address_bits)) matches too. Hence the fast path
/// returns a superset of candidates and can differ only for index sizes 16 and 17.
#[kani::proof]
fn c19_l1_scalar_match_implies_fast_match() {
	let bits: u8 = kani::any();
	kani::assume(bits >= 16 && bits <= 49);
	let x: u64 = kani::any();
	let key: u64 = kani::any();
	let e = Entry::from_u64(x);
	let scalar = e.partial_key(bits) == Entry::extract_key(key, bits) && !e.is_empty();
	let shift = std::cmp::max(32, Entry::address_bits(bits));
	let pk = (key << bits) >> shift;
	let fast = ((x >> shift) as u32) == (pk as u32);
	if scalar { assert!(fast, "C19.L1 scalar match implies fast match"); }
	if bits >= 18 && pk != 0 && x != 0 { assert!(fast == scalar, "C19.L1 exact agreement for bits >= 18"); }
	kani::cover!(bits == 16 && fast && !scalar && x != 0 && pk != 0);
}

fn spec_check(bits: u8, s: usize, key: u64, ents: &[u64; 64], e: Entry, i: usize, fast: bool) {
	let want = Entry::extract_key(key, bits);
	let shift = std::cmp::max(32, Entry::address_bits(bits));
	let pk = (key << bits) >> shift;
	let found = !e.is_empty();
	if found {
		assert!(i >= s, "C19.A1 never before the start position");
		assert!(i < 64, "C19.A1 in page");
		assert!(e.as_u64() == ents[i], "C19.A1 returns the slot content");
		assert!(ents[i] != 0, "C19.A1 never an empty slot");
		if fast && pk != 0 {
			assert!(((ents[i] >> shift) as u32) == (pk as u32), "C19.A2 agrees on every compared bit");
		} else {
			assert!(Entry::from_u64(ents[i]).partial_key(bits) == want, "C19.B2 exact match");
		}
	}
	let mut k = s;
	while k < 64 {
		if !found || k < i {
			let ek = Entry::from_u64(ents[k]);
			let m = ek.partial_key(bits) == want && !ek.is_empty();
			assert!(!m, "C19.A3 no exact match is skipped or missed");
			if fast && pk != 0 {
				// first-ness on the compared bits as well
				assert!(!(((ents[k] >> shift) as u32) == (pk as u32)), "C19.A3 first slot agreeing on the compared bits");
			}
		}
		k += 1;
	}
}

fn run_sse2(t: &IndexTable, bits: u8, s: usize, key: u64, chunk: &Chunk, ents: &[u64; 64]) {
	let (e, i) = t.find_entry_sse2(key, s, chunk);
	spec_check(bits, s, key, ents, e, i, true);
	// C19.A4: with a zero fast partial key the dispatcher must fall back to the scalar search
	let shift = std::cmp::max(32, Entry::address_bits(bits));
	if (key << bits) >> shift == 0 {
		let (eb, ib) = t.find_entry_base(key, s, chunk);
		assert!(eb.as_u64() == e.as_u64() && ib == i, "C19.A4 zero partial key falls back to scalar search");
	}
}

fn run_dispatch(t: &IndexTable, bits: u8, s: usize, key: u64, chunk: &Chunk, ents: &[u64; 64]) {
	let (e, i) = t.find_entry(key, s, chunk);
	spec_check(bits, s, key, ents, e, i, true);
}

fn run_base(t: &IndexTable, bits: u8, s: usize, key: u64, chunk: &Chunk, ents: &[u64; 64]) {
	let (e, i) = t.find_entry_base(key, s, chunk);
	spec_check(bits, s, key, ents, e, i, false);
}

/// Start group q is concrete (loop counters stay concrete, DESIGN.md section 4); the offset inside the group,
/// the page, the key and the index size are symbolic.
fn check_group(q: usize, lo: u8, hi: u8, which: u8) {
	let bits: u8 = kani::any();
	kani::assume(bits >= lo && bits <= hi);
	let t = table(bits);
	let ents: [u64; 64] = kani::any();
	let chunk = chunk_of(&ents);
	let key: u64 = kani::any();
	let skip: usize = kani::any();
	kani::assume(skip < 4);
	let mut c = 0;
	while c < 4 {
		if c == skip {
			if which == 0 { run_sse2(&t, bits, q * 4 + c, key, &chunk, &ents); }
			else if which == 1 { run_base(&t, bits, q * 4 + c, key, &chunk, &ents); }
			else { run_dispatch(&t, bits, q * 4 + c, key, &chunk, &ents); }
		}
		c += 1;
	}
	std::mem::forget(t);
}

macro_rules! c19_group {
	($name:ident, $q:expr, $lo:expr, $hi:expr, $which:expr) => {
		#[kani::proof]
		#[kani::unwind(65)]
		#[kani::stub(std::arch::x86_64::_mm_srl_epi64, crate::verif_common::model_mm_srl_epi64)]
		fn $name() { check_group($q, $lo, $hi, $which) }
	};
}

// vectorised search, index sizes 16..=40, one harness per start group
c19_group!(c19_sse2_q0, 0, 16, 40, 0);
c19_group!(c19_sse2_q1, 1, 16, 40, 0);
c19_group!(c19_sse2_q2, 2, 16, 40, 0);
c19_group!(c19_sse2_q3, 3, 16, 40, 0);
c19_group!(c19_sse2_q4, 4, 16, 40, 0);
c19_group!(c19_sse2_q5, 5, 16, 40, 0);
c19_group!(c19_sse2_q6, 6, 16, 40, 0);
c19_group!(c19_sse2_q7, 7, 16, 40, 0);
c19_group!(c19_sse2_q8, 8, 16, 40, 0);
c19_group!(c19_sse2_q9, 9, 16, 40, 0);
c19_group!(c19_sse2_q10, 10, 16, 40, 0);
c19_group!(c19_sse2_q11, 11, 16, 40, 0);
c19_group!(c19_sse2_q12, 12, 16, 40, 0);
c19_group!(c19_sse2_q13, 13, 16, 40, 0);
c19_group!(c19_sse2_q14, 14, 16, 40, 0);
c19_group!(c19_sse2_q15, 15, 16, 40, 0);
// large index sizes (thorough)
c19_group!(c19_sse2_big_q12, 12, 41, 49, 0);
c19_group!(c19_sse2_big_q15, 15, 41, 49, 0);
c19_group!(c19_sse2_big_q8, 8, 41, 49, 0);
// scalar search
c19_group!(c19_base_q15, 15, 16, 49, 1);
c19_group!(c19_base_q12, 12, 16, 49, 1);
c19_group!(c19_base_q8, 8, 16, 49, 1);
c19_group!(c19_base_q4, 4, 16, 49, 1);
c19_group!(c19_base_q0, 0, 16, 49, 1);
// the dispatcher callers use
c19_group!(c19_dispatch_q15, 15, 16, 40, 2);
c19_group!(c19_dispatch_q13, 13, 16, 40, 2);

/// Must-fail twin (vacuity guard for the C19 family): claims the search never finds anything.
#[kani::proof]
#[kani::unwind(65)]
#[kani::stub(std::arch::x86_64::_mm_srl_epi64, crate::verif_common::model_mm_srl_epi64)]
fn c19_twin_must_fail() {
	let t = table(20);
	let ents: [u64; 64] = kani::any();
	let chunk = chunk_of(&ents);
	let key: u64 = kani::any();
	let (e, _i) = t.find_entry_sse2(key, 60, &chunk);
	assert!(e.is_empty(), "TWIN search never finds anything (must fail)");
	std::mem::forget(t);
}

// =====================================================================================
// C09.b: one page operation from an arbitrary page. LogWriter::insert_index is replaced by a capture stub.
// =====================================================================================
pub static mut CAP_N: usize = 0;
pub static mut CAP_TABLE: u16 = 0;
pub static mut CAP_INDEX: u64 = 0;
pub static mut CAP_SUB: u8 = 0;
pub static mut CAP_CHUNK: Chunk = Chunk([0u8; 512]);

pub fn cap_insert_index<'a>(_w: &mut LogWriter<'a>, table: TableId, index: u64, sub: u8, data: Chunk) where 'a: 'a {
	unsafe {
		CAP_N += 1;
		CAP_TABLE = table.as_u16();
		CAP_INDEX = index;
		CAP_SUB = sub;
		CAP_CHUNK = data; // whole-array assignment (no byte loop)
	}
}

fn page_op_env() -> (RwLock<crate::log::LogOverlays>, [u64; 64], u64) {
	unsafe { CAP_N = 0; }
	let overlays = RwLock::new(crate::log::LogOverlays::with_columns(0));
	let ents: [u64; 64] = kani::any();
	let key: u64 = kani::any();
	(overlays, ents, key)
}

fn check_insert_new(bits: u8) {
	let t = table(bits);
	let (overlays, ents, key) = page_op_env();
	let mut w = LogWriter::new(&overlays, 1);
	let a: u64 = kani::any();
	let r = t.plan_insert_chunk(key, Address::from_u64(a), chunk_of(&ents), None, &mut w).unwrap();
	let n = unsafe { CAP_N };
	// first empty slot
	let mut first = 64;
	let mut k = 64;
	while k > 0 { k -= 1; if ents[k] == 0 { first = k; } }
	match r {
		PlanOutcome::Written => {
			assert!(a <= Entry::last_address(bits), "C09.G2 overflowing address is never written");
			assert!(first < 64, "C09.P1 written only if a slot was empty");
			assert!(n == 1, "C09.P1 exactly one page logged");
			assert!(unsafe { CAP_SUB } as usize == first, "C09.P1 modified-slot index is the first empty slot");
			assert!(unsafe { CAP_INDEX } == t.chunk_index(key), "C09.P1 logged under the key's page");
			assert!(unsafe { CAP_TABLE } == t.id.as_u16(), "C09.P1 logged under this table");
			let j: usize = kani::any();
			kani::assume(j < 64);
			let got = entry_at(unsafe { &CAP_CHUNK }, j);
			if j == first {
				let e = Entry::from_u64(got);
				assert!(e.address(bits).as_u64() == a, "C09.P1 new entry carries the address");
				assert!(e.partial_key(bits) == Entry::extract_key(key, bits), "C09.P1 new entry carries the partial key");
				assert!(got != 0 || (a == 0 && Entry::extract_key(key, bits) == 0), "C09.P1 entry non-empty");
			} else {
				assert!(got == ents[j], "C09.P1 no other slot changes");
			}
		},
		PlanOutcome::NeedReindex => {
			assert!(n == 0, "C09.P2 nothing logged when reindex is needed");
			assert!(first == 64 || a > Entry::last_address(bits), "C09.P2 reindex only when full or address overflow");
		},
		PlanOutcome::Skipped => assert!(false, "C09.P1 insert is never skipped"),
	}
	kani::cover!(first == 64);
	kani::cover!(first == 63 && n == 1);
	kani::cover!(first == 0 && n == 1);
	std::mem::forget(w);
	std::mem::forget(t);
}

fn check_insert_replace(bits: u8, i: usize) {
	let t = table(bits);
	let (overlays, ents0, key) = page_op_env();
	let mut ents = ents0;
	// precondition of the call (asserted by the code itself): slot i carries the key's partial key
	let pk = Entry::extract_key(key, bits);
	let old_addr: u64 = kani::any();
	kani::assume(old_addr <= Entry::last_address(bits));
	ents[i] = Entry::new(Address::from_u64(old_addr), pk, bits).as_u64();
	let mut w = LogWriter::new(&overlays, 1);
	let a: u64 = kani::any();
	let r = t.plan_insert_chunk(key, Address::from_u64(a), chunk_of(&ents), Some(i), &mut w).unwrap();
	let n = unsafe { CAP_N };
	match r {
		PlanOutcome::Written => {
			assert!(a <= Entry::last_address(bits), "C09.G2 overflowing address is never written");
			assert!(n == 1 && unsafe { CAP_SUB } as usize == i, "C09.P3 slot i logged");
			let j: usize = kani::any();
			kani::assume(j < 64);
			let got = entry_at(unsafe { &CAP_CHUNK }, j);
			if j == i {
				let e = Entry::from_u64(got);
				assert!(e.address(bits).as_u64() == a, "C09.P3 replaced entry carries the new address");
				assert!(e.partial_key(bits) == pk, "C09.P3 replaced entry keeps the partial key");
			} else {
				assert!(got == ents[j], "C09.P3 no other slot changes");
			}
		},
		PlanOutcome::NeedReindex => assert!(n == 0 && a > Entry::last_address(bits), "C09.P3 reindex only on address overflow"),
		PlanOutcome::Skipped => assert!(false, "C09.P3 replace is never skipped"),
	}
	kani::cover!(n == 1);
	std::mem::forget(w);
	std::mem::forget(t);
}

fn check_remove(bits: u8, i: usize) {
	let t = table(bits);
	let (overlays, ents, key) = page_op_env();
	let mut w = LogWriter::new(&overlays, 1);
	let r = t.plan_remove_chunk(key, chunk_of(&ents), i, &mut w).unwrap();
	let n = unsafe { CAP_N };
	let e = Entry::from_u64(ents[i]);
	let is_match = ents[i] != 0 && e.partial_key(bits) == Entry::extract_key(key, bits);
	match r {
		PlanOutcome::Written => {
			assert!(is_match, "C09.P4 removes only a non-empty slot with the key's partial key");
			assert!(n == 1 && unsafe { CAP_SUB } as usize == i, "C09.P4 slot i logged");
			assert!(unsafe { CAP_INDEX } == t.chunk_index(key), "C09.P4 logged under the key's page");
			let j: usize = kani::any();
			kani::assume(j < 64);
			let got = entry_at(unsafe { &CAP_CHUNK }, j);
			if j == i { assert!(got == 0, "C09.P4 slot cleared"); } else { assert!(got == ents[j], "C09.P4 no other slot changes"); }
		},
		PlanOutcome::Skipped => assert!(!is_match && n == 0, "C09.P4 skipped only when the slot does not match; nothing logged"),
		PlanOutcome::NeedReindex => assert!(false, "C09.P4 remove never needs reindex"),
	}
	kani::cover!(is_match);
	kani::cover!(!is_match && ents[i] != 0);
	std::mem::forget(w);
	std::mem::forget(t);
}

macro_rules! c09_page {
	($name:ident, $body:expr) => {
		crate::verif_env! {
			#[kani::proof]
			#[kani::unwind(66)]
			#[kani::stub(crate::log::LogWriter::insert_index, cap_insert_index)]
			fn $name() { $body }
		}
	};
}

/// The slot is enumerated over five representative positions (a symbolic slot turns the 8-byte entry write into a
/// memcpy at a symbolic offset of the 512-byte page: out of memory; all 64 positions in one harness: > 10 minutes).
fn any_slot_then(f: fn(u8, usize), bits: u8) {
	const SLOTS: [usize; 5] = [0, 1, 31, 62, 63];
	let s: usize = kani::any();
	kani::assume(s < 5);
	let mut c = 0;
	while c < 5 { if c == s { f(bits, SLOTS[c]); } c += 1; }
}

c09_page!(c09_p1_insert_new_b16, check_insert_new(16));
c09_page!(c09_p1_insert_new_b17, check_insert_new(17));
c09_page!(c09_p1_insert_new_b24, check_insert_new(24));
c09_page!(c09_p1_insert_new_b40, check_insert_new(40));
c09_page!(c09_p3_replace_b16, any_slot_then(check_insert_replace, 16));
c09_page!(c09_p3_replace_b24, any_slot_then(check_insert_replace, 24));
c09_page!(c09_p3_replace_b40, any_slot_then(check_insert_replace, 40));
c09_page!(c09_p4_remove_b16, any_slot_then(check_remove, 16));
c09_page!(c09_p4_remove_b24, any_slot_then(check_remove, 24));
c09_page!(c09_p4_remove_b40, any_slot_then(check_remove, 40));
