//! Helpers and harnesses for src/ref_count.rs.
#![allow(dead_code, unused_imports, static_mut_refs)]
use super::*;

pub fn mk(bits: u8) -> RefCountTable {
	RefCountTable { id: RefCountTableId::new(0, bits), map: RwLock::new(None), path: std::path::PathBuf::new() }
}

/// C10.G3: log table ids of ref-count tables round-trip and are injective.
#[kani::proof]
fn c10_g3_ref_count_log_index_roundtrip() {
	let col: u8 = kani::any();
	let bits: u8 = kani::any();
	kani::assume(bits >= 16 && bits < 48);
	let id = RefCountTableId::new(col, bits);
	assert!(RefCountTableId::from_log_index(id.log_index()) == id, "C10.G3 ref-count log index round trip");
	let col2: u8 = kani::any();
	let bits2: u8 = kani::any();
	kani::assume(bits2 >= 16 && bits2 < 48);
	let id2 = RefCountTableId::new(col2, bits2);
	if id2.log_index() == id.log_index() { assert!(id2 == id, "C10.G3 ref-count log index injective"); }
	assert!(id.log_index() < RefCountTableId::max_log_indicies(256), "C10.G3 in range");
}

/// C10.E1: ref-count entries pack (address, count) losslessly.
#[kani::proof]
#[kani::unwind(34)]
fn c10_e1_entry_roundtrip() {
	let a: u64 = kani::any();
	let c: u64 = kani::any();
	let e = Entry::new(Address::from_u64(a), c);
	let back = Entry::from_u128(e.as_u128());
	assert!(back.address().as_u64() == a && back.ref_count() == c, "C10.E1 ref-count entry round trip");
	let at: usize = kani::any();
	kani::assume(at < CHUNK_ENTRIES);
	let mut k = 0;
	while k < CHUNK_ENTRIES {
		if k == at {
			let mut chunk = Chunk([0u8; CHUNK_LEN]);
			RefCountTable::write_entry(&e, k, &mut chunk);
			let r = RefCountTable::read_entry(&chunk, k);
			assert!(r.address().as_u64() == a && r.ref_count() == c, "C10.E1 entry written to a page reads back");
			if k + 1 < CHUNK_ENTRIES { assert!(RefCountTable::read_entry(&chunk, k + 1).is_empty(), "C10.E1 neighbouring entry untouched"); }
		}
		k += 1;
	}
}
