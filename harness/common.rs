//! Environment model shared by all harness modules (compiled only under cfg(kani); DESIGN.md section 3).
//! Every function here replaces a function of a dependency or of the standard library via
//! `#[kani::stub]`. Each is part of the claim and is listed in the evidence of the harnesses that use it.
#![allow(dead_code, unused_imports, static_mut_refs)]

use std::time::Instant;

// ---- 3.1 locks: harnesses are single-threaded, a contended path must be unreachable ----
pub fn rw_lock_exclusive_slow(_l: &parking_lot::RawRwLock, _t: Option<Instant>) -> bool { panic!("contended lock in single-threaded harness") }
pub fn rw_unlock_exclusive_slow(_l: &parking_lot::RawRwLock, _f: bool) { panic!("contended lock in single-threaded harness") }
pub fn rw_lock_shared_slow(_l: &parking_lot::RawRwLock, _r: bool, _t: Option<Instant>) -> bool { panic!("contended lock in single-threaded harness") }
pub fn rw_unlock_shared_slow(_l: &parking_lot::RawRwLock) { panic!("contended lock in single-threaded harness") }
pub fn rw_lock_upgradable_slow(_l: &parking_lot::RawRwLock, _t: Option<Instant>) -> bool { panic!("contended lock in single-threaded harness") }
pub fn rw_unlock_upgradable_slow(_l: &parking_lot::RawRwLock, _f: bool) { panic!("contended lock in single-threaded harness") }
pub fn rw_upgrade_slow(_l: &parking_lot::RawRwLock, _t: Option<Instant>) -> bool { panic!("contended lock in single-threaded harness") }
pub fn rw_downgrade_slow(_l: &parking_lot::RawRwLock) { panic!("contended lock in single-threaded harness") }
pub fn rw_downgrade_to_upgradable_slow(_l: &parking_lot::RawRwLock) { panic!("contended lock in single-threaded harness") }
pub fn mx_lock_slow(_l: &parking_lot::RawMutex, _t: Option<Instant>) -> bool { panic!("contended lock in single-threaded harness") }
pub fn mx_unlock_slow(_l: &parking_lot::RawMutex, _f: bool) { panic!("contended lock in single-threaded harness") }

// Condvar: with no waiter the fast paths return before these are reached; blocking in a single-threaded harness never ends.
pub fn cv_notify_one_slow(_c: &parking_lot::Condvar, _m: *mut parking_lot::RawMutex) -> bool { panic!("condvar waiter in single-threaded harness") }
pub fn cv_notify_all_slow(_c: &parking_lot::Condvar, _m: *mut parking_lot::RawMutex) -> usize { panic!("condvar waiter in single-threaded harness") }
pub fn cv_wait_until_internal(_c: &parking_lot::Condvar, _m: &parking_lot::RawMutex, _t: Option<Instant>) -> parking_lot::WaitTimeoutResult { panic!("blocking wait in single-threaded harness") }

// ---- 3.5 small stubs ----
/// Error *messages* are no part of any property; `format!` explodes in CBMC.
pub fn fmt_stub(_a: std::fmt::Arguments<'_>) -> String { String::new() }

/// std's per-process HashMap seed comes from getrandom(2) (FFI); HashMap semantics do not depend on it.
pub fn fixed_random_state() -> std::hash::RandomState {
	unsafe { std::mem::transmute::<[u64; 2], std::hash::RandomState>([0x0123456789abcdef, 0xfedcba9876543210]) }
}

/// Forces crc32fast's portable table-driven implementation (the specialised one starts with cpuid).
pub fn no_specialized_crc(_init: u32, _amount: u64) -> Option<crc32fast::Hasher> { None }

/// Harness files are fabricated with from_raw_fd and never opened; close(2) is FFI.
pub fn fd_drop_noop(_fd: &mut std::os::fd::OwnedFd) {}

#[cfg(target_arch = "x86_64")]
#[path = "psrlq.rs"]
mod psrlq;
#[cfg(target_arch = "x86_64")]
pub use psrlq::model_mm_srl_epi64;

pub fn raw_file(fd: i32) -> std::fs::File {
	use std::os::fd::FromRawFd;
	unsafe { std::fs::File::from_raw_fd(fd) }
}

/// Attaches the eleven lock slow-path stubs and the `format!` stub to a harness.
#[macro_export]
macro_rules! verif_env {
	($($item:tt)*) => {
		#[kani::stub(parking_lot::RawRwLock::lock_exclusive_slow, crate::verif_common::rw_lock_exclusive_slow)]
		#[kani::stub(parking_lot::RawRwLock::unlock_exclusive_slow, crate::verif_common::rw_unlock_exclusive_slow)]
		#[kani::stub(parking_lot::RawRwLock::lock_shared_slow, crate::verif_common::rw_lock_shared_slow)]
		#[kani::stub(parking_lot::RawRwLock::unlock_shared_slow, crate::verif_common::rw_unlock_shared_slow)]
		#[kani::stub(parking_lot::RawRwLock::lock_upgradable_slow, crate::verif_common::rw_lock_upgradable_slow)]
		#[kani::stub(parking_lot::RawRwLock::unlock_upgradable_slow, crate::verif_common::rw_unlock_upgradable_slow)]
		#[kani::stub(parking_lot::RawRwLock::upgrade_slow, crate::verif_common::rw_upgrade_slow)]
		#[kani::stub(parking_lot::RawRwLock::downgrade_slow, crate::verif_common::rw_downgrade_slow)]
		#[kani::stub(parking_lot::RawRwLock::downgrade_to_upgradable_slow, crate::verif_common::rw_downgrade_to_upgradable_slow)]
		#[kani::stub(parking_lot::RawMutex::lock_slow, crate::verif_common::mx_lock_slow)]
		#[kani::stub(parking_lot::RawMutex::unlock_slow, crate::verif_common::mx_unlock_slow)]
		#[kani::stub(parking_lot::Condvar::notify_one_slow, crate::verif_common::cv_notify_one_slow)]
		#[kani::stub(parking_lot::Condvar::notify_all_slow, crate::verif_common::cv_notify_all_slow)]
		#[kani::stub(parking_lot::Condvar::wait_until_internal, crate::verif_common::cv_wait_until_internal)]
		#[kani::stub(alloc::fmt::format, crate::verif_common::fmt_stub)]
		#[kani::stub(std::hash::RandomState::new, crate::verif_common::fixed_random_state)]
		$($item)*
	};
}

/// verif_env + table-file stubs (3.2) + array-backed per-record overlay (3.4).
#[macro_export]
macro_rules! verif_tbl {
	($($item:tt)*) => {
		#[kani::stub(parking_lot::RawRwLock::lock_exclusive_slow, crate::verif_common::rw_lock_exclusive_slow)]
		#[kani::stub(parking_lot::RawRwLock::unlock_exclusive_slow, crate::verif_common::rw_unlock_exclusive_slow)]
		#[kani::stub(parking_lot::RawRwLock::lock_shared_slow, crate::verif_common::rw_lock_shared_slow)]
		#[kani::stub(parking_lot::RawRwLock::unlock_shared_slow, crate::verif_common::rw_unlock_shared_slow)]
		#[kani::stub(parking_lot::RawRwLock::lock_upgradable_slow, crate::verif_common::rw_lock_upgradable_slow)]
		#[kani::stub(parking_lot::RawRwLock::unlock_upgradable_slow, crate::verif_common::rw_unlock_upgradable_slow)]
		#[kani::stub(parking_lot::RawRwLock::upgrade_slow, crate::verif_common::rw_upgrade_slow)]
		#[kani::stub(parking_lot::RawRwLock::downgrade_slow, crate::verif_common::rw_downgrade_slow)]
		#[kani::stub(parking_lot::RawRwLock::downgrade_to_upgradable_slow, crate::verif_common::rw_downgrade_to_upgradable_slow)]
		#[kani::stub(parking_lot::RawMutex::lock_slow, crate::verif_common::mx_lock_slow)]
		#[kani::stub(parking_lot::RawMutex::unlock_slow, crate::verif_common::mx_unlock_slow)]
		#[kani::stub(parking_lot::Condvar::notify_one_slow, crate::verif_common::cv_notify_one_slow)]
		#[kani::stub(parking_lot::Condvar::notify_all_slow, crate::verif_common::cv_notify_all_slow)]
		#[kani::stub(parking_lot::Condvar::wait_until_internal, crate::verif_common::cv_wait_until_internal)]
		#[kani::stub(alloc::fmt::format, crate::verif_common::fmt_stub)]
		#[kani::stub(std::hash::RandomState::new, crate::verif_common::fixed_random_state)]
		#[kani::stub(crate::file::TableFile::read_at, crate::file::verif_kani::stub_read_at)]
		#[kani::stub(crate::file::TableFile::slice_at, crate::file::verif_kani::stub_slice_at)]
		#[kani::stub(crate::file::TableFile::write_at, crate::file::verif_kani::stub_write_at)]
		#[kani::stub(crate::file::TableFile::flush, crate::file::verif_kani::stub_flush)]
		#[kani::stub(crate::file::TableFile::grow, crate::file::verif_kani::stub_grow)]
		#[kani::stub(crate::log::LogWriter::insert_value, crate::log::verif_kani::ov_insert_value)]
		#[kani::stub(<crate::log::LogWriter as crate::log::LogQuery>::value, crate::log::verif_kani::ov_value)]
		#[kani::stub(<crate::log::LogWriter as crate::log::LogQuery>::value_ref, crate::log::verif_kani::ov_value_ref)]
		$($item)*
	};
}

/// Uninterpreted checksum (C13.P3 gate harnesses): `update` does nothing, `finalize` returns one fixed arbitrary value.
/// Sound for obligations that only need "stored checksum == computed checksum" as an opaque predicate; the CRC function
/// itself is exercised with the real portable implementation in C13.P1b and the thorough P3 harness.
pub static mut CRC_VAL: u32 = 0;
pub fn crc_update_noop(_h: &mut crc32fast::Hasher, _b: &[u8]) {}
pub fn crc_finalize_uninterpreted(h: crc32fast::Hasher) -> u32 { std::mem::forget(h); unsafe { CRC_VAL } }
