//! Harnesses for src/btree/mod.rs: C04.B3 (separator / child-index codec at the 254/255 length-escape boundary,
//! decoding of arbitrary bytes never panics, Node::from_encoded inverts the node encoding).
#![allow(dead_code, unused_imports, static_mut_refs)]
use super::*;

fn roundtrip(len: usize) {
	let bytes: [u8; 260] = kani::any();
	let addr: u64 = kani::any();
	kani::assume(addr != 0);
	let child: u64 = kani::any();
	let mut e = Entry::empty();
	e.write_child_index(Address::from_u64(child));
	e.write_separator(&bytes[..len], Address::from_u64(addr));
	let enc = e.encoded.inner_mut().clone();
	let expect = 8 + 8 + 1 + if len >= 255 { 4 } else { 0 } + len;
	assert!(enc.len() == expect, "C04.B3 encoded size");
	let mut d = Entry::from_encoded(enc);
	let c = d.read_child_index().unwrap();
	assert!(c.map(|a| a.as_u64()).unwrap_or(0) == child, "C04.B3 child index round trip");
	let s = d.read_separator().unwrap();
	match s {
		Some(sep) => {
			assert!(sep.value.as_u64() == addr, "C04.B3 value address round trip");
			assert!(sep.key.len() == len, "C04.B3 key length round trip");
			if len > 0 {
				let i: usize = kani::any();
				kani::assume(i < len);
				assert!(sep.key[i] == bytes[i], "C04.B3 key bytes round trip");
			}
			std::mem::forget(sep);
		},
		None => assert!(false, "C04.B3 separator lost"),
	}
	let end = d.read_separator().unwrap();
	assert!(end.is_none(), "C04.B3 nothing follows the last separator");
	std::mem::forget(d); std::mem::forget(e);
}

macro_rules! c04_b3 {
	($name:ident, $len:expr) => {
		#[kani::proof]
		#[kani::unwind(280)]
		#[kani::stub(alloc::fmt::format, crate::verif_common::fmt_stub)]
		fn $name() { roundtrip($len) }
	};
}
c04_b3!(c04_b3_separator_codec_0, 0);
c04_b3!(c04_b3_separator_codec_1, 1);
c04_b3!(c04_b3_separator_codec_254, 254);
c04_b3!(c04_b3_separator_codec_255, 255);
c04_b3!(c04_b3_separator_codec_256, 256);

/// Decoding arbitrary bytes never panics: each step either errors, ends, or consumes bytes within the buffer.
fn decode_total(l: usize) {
	let buf: [u8; 24] = kani::any();
	let mut d = Entry::from_encoded(buf[..l].to_vec());
	let c = d.read_child_index();
	if c.is_ok() {
		let s = d.read_separator();
		if let Ok(Some(sep)) = &s { assert!(sep.key.len() + 17 <= l, "C04.B3 decoded key lies inside the entry"); }
		std::mem::forget(s);
	} else {
		assert!(l < 8, "C04.B3 child index needs 8 bytes");
	}
	std::mem::forget(c); std::mem::forget(d);
}
#[kani::proof]
#[kani::unwind(26)]
#[kani::stub(alloc::fmt::format, crate::verif_common::fmt_stub)]
fn c04_b3_decode_arbitrary_bytes() {
	let l: usize = kani::any();
	kani::assume(l <= 24);
	let mut c = 0;
	while c <= 24 { if c == l { decode_total(c); } c += 1; }
}

/// Node::from_encoded inverts the encoding loop of write_node_plan (child, separator, child, ... ) for a node with
/// n one-byte keys.
fn node_codec(n: usize, has_child: bool) {
	let ks: [u8; 8] = kani::any();
	let addrs: [u64; 8] = kani::any();
	let chs: [u64; 9] = kani::any();
	let mut e = Entry::empty();
	let mut i = 0;
	while i < 9 {
		if i <= n {
			if has_child { kani::assume(chs[i] != 0); }
			e.write_child_index(Address::from_u64(if has_child { chs[i] } else { 0 }));
			if i < n { kani::assume(addrs[i] != 0); e.write_separator(&[ks[i]], Address::from_u64(addrs[i])); }
		}
		i += 1;
	}
	let enc = e.encoded.inner_mut().clone();
	let node = Node::from_encoded(enc).unwrap();
	let j: usize = kani::any();
	kani::assume(j < 8);
	if j < n {
		assert!(node.separator_address(j).map(|a| a.as_u64()) == Some(addrs[j]), "C04.B3 node decode: separator address");
		assert!(node.separators[j].separator.as_ref().map(|s| (s.key.len(), s.key[0])) == Some((1, ks[j])), "C04.B3 node decode: separator key");
	} else {
		assert!(!node.has_separator(j), "C04.B3 node decode: no extra separator");
	}
	let c: usize = kani::any();
	kani::assume(c <= 8);
	let want = if has_child && c <= n { Some(chs[c]) } else { None };
	assert!(node.children[c].entry_index.map(|a| a.as_u64()) == want, "C04.B3 node decode: children in order");
	assert!(!node.changed, "C04.B3 decoded node is clean");
	std::mem::forget(node); std::mem::forget(e);
}
macro_rules! c04_b3_node {
	($name:ident, $n:expr, $hc:expr) => {
		#[kani::proof]
		#[kani::unwind(12)]
		#[kani::stub(alloc::fmt::format, crate::verif_common::fmt_stub)]
		fn $name() { node_codec($n, $hc) }
	};
}
c04_b3_node!(c04_b3_node_from_encoded_n0, 0, false);
c04_b3_node!(c04_b3_node_from_encoded_n1_inner, 1, true);
c04_b3_node!(c04_b3_node_from_encoded_n2_leaf, 2, false);
c04_b3_node!(c04_b3_node_from_encoded_n3_inner, 3, true);
c04_b3_node!(c04_b3_node_from_encoded_n8_inner, 8, true);
c04_b3_node!(c04_b3_node_from_encoded_n8_leaf, 8, false);
