//! Harnesses for src/btree/mod.rs: C04.B3 (separator / child-index codec at the 254/255 length-escape boundary,
//! decoding of arbitrary bytes never panics, Node::from_encoded inverts the node encoding).
#![allow(dead_code, unused_imports, static_mut_refs)]
use super::*;

fn roundtrip(len: usize) {
	let bytes: [u8; 260] = kani::any();
	let addr: u64 = kani::any();
	kani::assume(addr != 0);
	let child: u64 = kani::any();
	let mut e = Entry::empty();
	e.write_child_index(Address::from_u64(child));
	e.write_separator(&bytes[..len], Address::from_u64(addr));
	let enc = e.encoded.inner_mut().clone();
	let expect = 8 + 8 + 1 + if len >= 255 { 4 } else { 0 } + len;
	assert!(enc.len() == expect, "C04.B3 encoded size");
	let mut d = Entry::from_encoded(enc);
	let c = d.read_child_index().unwrap();
	assert!(c.map(|a| a.as_u64()).unwrap_or(0) == child, "C04.B3 child index round trip");
	let s = d.read_separator().unwrap();
	match s {
		Some(sep) => {
			assert!(sep.value.as_u64() == addr, "C04.B3 value address round trip");
			assert!(sep.key.len() == len, "C04.B3 key length round trip");
			if len > 0 {
				let i: usize = kani::any();
				kani::assume(i < len);
				assert!(sep.key[i] == bytes[i], "C04.B3 key bytes round trip");
			}
			std::mem::forget(sep);
		},
		None => assert!(false, "C04.B3 separator lost"),
	}
	let end = d.read_separator().unwrap();
	assert!(end.is_none(), "C04.B3 nothing follows the last separator");
	std::mem::forget(d); std::mem::forget(e);
}

macro_rules! c04_b3 {
	($name:ident, $len:expr) => {
		#[kani::proof]
		#[kani::unwind(280)]
		#[kani::stub(alloc::fmt::format, crate::verif_common::fmt_stub)]
		fn $name() { roundtrip($len) }
	};
}
c04_b3!(c04_b3_separator_codec_0, 0);
c04_b3!(c04_b3_separator_codec_1, 1);
c04_b3!(c04_b3_separator_codec_254, 254);
c04_b3!(c04_b3_separator_codec_255, 255);
c04_b3!(c04_b3_separator_codec_256, 256);

/// Decoding arbitrary bytes never panics: each step either errors, ends, or consumes bytes within the buffer.
fn decode_total(l: usize) {
	let buf: [u8; 24] = kani::any();
	let mut d = Entry::from_encoded(buf[..l].to_vec());
	let c = d.read_child_index();
	if c.is_ok() {
		let s = d.read_separator();
		if let Ok(Some(sep)) = &s { assert!(sep.key.len() + 17 <= l, "C04.B3 decoded key lies inside the entry"); }
		std::mem::forget(s);
	} else {
		assert!(l < 8, "C04.B3 child index needs 8 bytes");
	}
	std::mem::forget(c); std::mem::forget(d);
}
#[kani::proof]
#[kani::unwind(26)]
#[kani::stub(alloc::fmt::format, crate::verif_common::fmt_stub)]
fn c04_b3_decode_arbitrary_bytes() {
	let l: usize = kani::any();
	kani::assume(l <= 24);
	let mut c = 0;
	while c <= 24 { if c == l { decode_total(c); } c += 1; }
}

/// Node::from_encoded inverts the encoding loop of write_node_plan (child, separator, child, ... ) for a node with
/// n one-byte keys.
fn node_codec(n: usize, has_child: bool) {
	let ks: [u8; 8] = kani::any();
	let addrs: [u64; 8] = kani::any();
	let chs: [u64; 9] = kani::any();
	let mut e = Entry::empty();
	let mut i = 0;
	while i < 9 {
		if i <= n {
			if has_child { kani::assume(chs[i] != 0); }
			e.write_child_index(Address::from_u64(if has_child { chs[i] } else { 0 }));
			if i < n { kani::assume(addrs[i] != 0); e.write_separator(&[ks[i]], Address::from_u64(addrs[i])); }
		}
		i += 1;
	}
	let enc = e.encoded.inner_mut().clone();
	let node = Node::from_encoded(enc).unwrap();
	let j: usize = kani::any();
	kani::assume(j < 8);
	if j < n {
		assert!(node.separator_address(j).map(|a| a.as_u64()) == Some(addrs[j]), "C04.B3 node decode: separator address");
		assert!(node.separators[j].separator.as_ref().map(|s| (s.key.len(), s.key[0])) == Some((1, ks[j])), "C04.B3 node decode: separator key");
	} else {
		assert!(!node.has_separator(j), "C04.B3 node decode: no extra separator");
	}
	let c: usize = kani::any();
	kani::assume(c <= 8);
	let want = if has_child && c <= n { Some(chs[c]) } else { None };
	assert!(node.children[c].entry_index.map(|a| a.as_u64()) == want, "C04.B3 node decode: children in order");
	assert!(!node.changed, "C04.B3 decoded node is clean");
	std::mem::forget(node); std::mem::forget(e);
}
macro_rules! c04_b3_node {
	($name:ident, $n:expr, $hc:expr) => {
		#[kani::proof]
		#[kani::unwind(12)]
		#[kani::stub(alloc::fmt::format, crate::verif_common::fmt_stub)]
		fn $name() { node_codec($n, $hc) }
	};
}
c04_b3_node!(c04_b3_node_from_encoded_n0, 0, false);
c04_b3_node!(c04_b3_node_from_encoded_n1_inner, 1, true);
c04_b3_node!(c04_b3_node_from_encoded_n2_leaf, 2, false);
c04_b3_node!(c04_b3_node_from_encoded_n3_inner, 3, true);
c04_b3_node!(c04_b3_node_from_encoded_n8_inner, 8, true);
c04_b3_node!(c04_b3_node_from_encoded_n8_leaf, 8, false);

// =====================================================================================
// C04.T / C14.T: BTree::write_sorted_changes — the glue between the per-node work and the tree header (root address,
// recorded depth). `Node::change` is replaced by a script of outcomes (nothing / the root split / the root under-full),
// `BTree::fetch_root`, `Node::fetch_child`, `BTreeTable::write_node_plan` and `write_plan_remove_node` by recording
// contracts (each decided on its own: C04.I/D/R, C04.B3). Real code: the loop over the operations, the growth of the tree
// by one level (new root over the old root and the split-off half), the loss of a level (old root released exactly once,
// its only child becomes the root), the recorded depth and root address, the final write of a changed root.
// =====================================================================================
use crate::btree::node::{Child, Separator, SeparatorInner};
use crate::db::{RcKey, RcValue};
pub static mut TR_SCRIPT: [u8; 2] = [0; 2]; // 0 nothing, 1 root split, 2 root emptied (under-full), 3 under-full but keeps a separator
pub static mut TR_CALLS: usize = 0;
pub static mut TR_DEPTH_SEEN: [u32; 2] = [0; 2];
pub static mut TR_LEFT: [usize; 2] = [0; 2];
pub static mut TR_MARK: bool = false;
pub static mut TR_MOVED: bool = false;
pub static mut TR_WRITES: usize = 0;
pub static mut TR_W_ID: [u64; 4] = [0; 4]; // node_id of each recorded write (0 = None)
pub static mut TR_W_RET: [u64; 4] = [0; 4];
pub static mut TR_W_NODE: [std::mem::MaybeUninit<Node>; 4] = [std::mem::MaybeUninit::uninit(), std::mem::MaybeUninit::uninit(), std::mem::MaybeUninit::uninit(), std::mem::MaybeUninit::uninit()];
pub static mut TR_REMOVED: [u64; 2] = [0; 2];
pub static mut TR_REMOVALS: usize = 0;

fn tr_sep(k: u8, a: u64) -> Separator { Separator { modified: false, separator: Some(SeparatorInner { key: vec![k], value: Address::from_u64(a) }) } }
fn tr_root() -> Node {
	let mut n = Node { separators: Default::default(), children: Default::default(), changed: false };
	n.separators[0] = tr_sep(40, 41);
	n.children[0] = Child { moved: false, entry_index: Some(Address::from_u64(200)) };
	n.children[1] = Child { moved: false, entry_index: Some(Address::from_u64(201)) };
	n
}
fn tr_child() -> Node {
	let mut n = Node { separators: Default::default(), children: Default::default(), changed: false };
	let mut j = 0;
	while j < 4 { n.separators[j] = tr_sep(10 + j as u8, 11 + j as u64); j += 1; }
	n
}
pub fn stub_fetch_root<Q: LogQuery>(root: Address, _t: TablesRef, _log: &Q) -> Result<Node> {
	if root == NULL_ADDRESS { Ok(Node::default()) } else { assert!(root.as_u64() == 100, "C04.T the root is read at the recorded root address"); Ok(tr_root()) }
}
pub fn stub_fetch_child_t<Q: LogQuery>(n: &Node, i: usize, _values: TablesRef, _log: &Q) -> Result<Option<Node>> {
	match n.children[i].entry_index { Some(a) => { assert!(a.as_u64() == 200, "harness: only child 200 is read"); Ok(Some(tr_child())) }, None => Ok(None) }
}
pub fn stub_change(n: &mut Node, parent: Option<(&mut Node, usize)>, depth: u32, changes: &mut &[Operation<RcKey, RcValue>], _b: TablesRef, _l: &mut LogWriter) -> Result<(Option<(Separator, Child)>, bool)> {
	assert!(parent.is_none(), "harness: the root has no parent");
	unsafe {
		let k = TR_CALLS;
		assert!(k < 2, "C04.T one pass over the root per remaining operation");
		TR_CALLS += 1;
		TR_DEPTH_SEEN[k] = depth;
		TR_LEFT[k] = changes.len();
		match TR_SCRIPT[k] {
			1 => { n.changed = true; Ok((Some((tr_sep(50, 777), Child { moved: true, entry_index: Some(Address::from_u64(900)) })), false)) },
			2 => {
				let mut j = 0;
				while j < ORDER { n.separators[j] = Separator { modified: true, separator: None }; j += 1; }
				let mut j = 1;
				while j < ORDER_CHILD { n.children[j] = Child { moved: true, entry_index: None }; j += 1; }
				n.children[0] = Child { moved: false, entry_index: Some(Address::from_u64(200)) };
				n.changed = true;
				Ok((None, true))
			},
			3 => { n.changed = true; Ok((None, true)) },
			_ => { if TR_MARK { n.changed = true; } Ok((None, false)) },
		}
	}
}
pub fn stub_write_node_plan_t(_t: TablesRef, node: Node, _w: &mut LogWriter, node_id: Option<Address>) -> Result<Option<Address>> {
	// as the real function: a node that carries no change is not written
	let mut changed = node.changed;
	let mut j = 0;
	while j < ORDER_CHILD { if node.children[j].moved { changed = true; } j += 1; }
	let mut j = 0;
	while j < ORDER { if node.separators[j].modified { changed = true; } j += 1; }
	if !changed { std::mem::forget(node); return Ok(None) }
	unsafe {
		let k = TR_WRITES;
		assert!(k < 4, "harness: at most four node writes");
		TR_WRITES += 1;
		TR_W_ID[k] = node_id.map(|a| a.as_u64()).unwrap_or(0);
		TR_W_NODE[k].as_mut_ptr().write(node);
		// a new node gets a fresh address; a rewritten node stays in place or moves to a fresh address (size class change)
		let ret = match node_id { None => 500 + k as u64, Some(_) => if TR_MOVED { 600 + k as u64 } else { 0 } };
		TR_W_RET[k] = ret;
		Ok(if ret == 0 { None } else { Some(Address::from_u64(ret)) })
	}
}
pub fn stub_remove_node_t(_t: TablesRef, _w: &mut LogWriter, node_index: Address) -> Result<()> {
	unsafe { assert!(TR_REMOVALS < 2, "harness: at most two releases"); TR_REMOVED[TR_REMOVALS] = node_index.as_u64(); TR_REMOVALS += 1; }
	Ok(())
}

/// `has_root`: the tree has a root node at address 100 (else it is empty); `script`: outcome of each pass over the root.
fn root_case(has_root: bool, nops: usize, script: [u8; 2]) {
	let d0: u32 = kani::any();
	kani::assume(d0 <= 6 && (has_root || d0 == 0) && ((script[0] != 2 && script[1] != 2) || d0 >= 1));
	unsafe {
		TR_SCRIPT = script; TR_CALLS = 0; TR_MARK = kani::any(); TR_MOVED = kani::any(); TR_WRITES = 0; TR_REMOVALS = 0;
	}
	let mut tree = BTree::new(if has_root { Some(Address::from_u64(100)) } else { None }, d0, 1);
	let tables: [ValueTable; 0] = [];
	let compression = crate::compress::Compress::new(crate::compress::CompressionType::NoCompression, u32::MAX);
	let values = TablesRef { tables: &tables, compression: &compression, col: 0, preimage: false, ref_counted: false };
	let overlays = crate::log::verif_kani::new_overlays();
	let mut w = LogWriter::new(&overlays, 1);
	let ops: [Operation<RcKey, RcValue>; 2] = [Operation::Dereference(vec![1u8].into()), Operation::Dereference(vec![2u8].into())];
	tree.write_sorted_changes(&ops[..nops], values, &mut w).unwrap();
	unsafe {
		assert!(TR_CALLS == nops, "C04.T every operation of the change set is handed to the root once");
		assert!(TR_DEPTH_SEEN[0] == d0 && TR_LEFT[0] == nops, "C04.T the first pass runs at the recorded depth over the whole change set");
		let moved = TR_MOVED;
		match (script[0], nops) {
			(1, 1) => {
				// one more level: new root = [old root | promoted separator | split-off half]
				assert!(tree.depth == d0 + 1, "C04.T a split of the root adds one level to the recorded depth");
				assert!(TR_REMOVALS == 0, "C04.T growing releases no node");
				assert!(TR_WRITES == 2, "C04.T the old root half and the new root are written");
				assert!(TR_W_ID[0] == if has_root { 100 } else { 0 }, "C04.T the left half keeps the old root's address (a first root gets a fresh one)");
				let left_at = if TR_W_RET[0] != 0 { TR_W_RET[0] } else { 100 };
				assert!(TR_W_ID[1] == 0, "C04.T the new root is a new node");
				let nr = TR_W_NODE[1].assume_init_ref();
				assert!(nr.children[0].entry_index.map(|a| a.as_u64()) == Some(left_at), "C04.T the new root's first child is the old root where it was written");
				assert!(nr.children[1].entry_index.map(|a| a.as_u64()) == Some(900), "C04.T the new root's second child is the split-off half");
				assert!(nr.children[2].entry_index.is_none() && nr.separators[1].separator.is_none(), "C04.T the new root has exactly one separator and two children");
				let s = nr.separators[0].separator.as_ref().unwrap();
				assert!(s.key.len() == 1 && s.key[0] == 50 && s.value.as_u64() == 777, "C04.T the new root's separator is the promoted one");
				assert!(tree.root_index.map(|a| a.as_u64()) == Some(TR_W_RET[1]) && TR_W_RET[1] != 0, "C04.T the recorded root address is where the new root was written");
			},
			(2, 1) => {
				assert!(tree.depth == d0 - 1, "C04.T a root left without separator gives up one level");
				assert!(TR_REMOVALS == 1 && TR_REMOVED[0] == 100, "C14.T the replaced root node is released exactly once");
				assert!(tree.root_index.map(|a| a.as_u64()) == Some(200), "C04.T the only child of the emptied root becomes the root");
				assert!(TR_WRITES == 0, "C04.T the promoted child is unchanged and not rewritten");
			},
			(3, 1) => {
				assert!(tree.depth == d0 && TR_REMOVALS == 0, "C04.T an under-full root that still has a separator stays the root");
				assert!(TR_WRITES == 1 && TR_W_ID[0] == 100, "C04.T a changed root is rewritten at its address");
				assert!(tree.root_index.map(|a| a.as_u64()) == Some(if moved { TR_W_RET[0] } else { 100 }), "C04.T the recorded root address follows the root if it moved");
			},
			(0, 1) => {
				assert!(tree.depth == d0 && TR_REMOVALS == 0, "C04.T depth and nodes are untouched without split or underflow");
				if has_root {
					assert!(TR_WRITES == if TR_MARK { 1 } else { 0 }, "C04.T the root is written exactly when it changed");
					assert!(tree.root_index.map(|a| a.as_u64()) == Some(if TR_MARK && moved { TR_W_RET[0] } else { 100 }), "C04.T the recorded root address follows the root if it moved");
				} else {
					// a fresh (default) root counts as changed: the first root node is created
					assert!(TR_WRITES == 1 && TR_W_ID[0] == 0 && tree.root_index.map(|a| a.as_u64()) == Some(TR_W_RET[0]), "C04.T the first root node is created and recorded");
				}
			},
			(0, 2) => {
				assert!(TR_DEPTH_SEEN[1] == d0 && TR_LEFT[1] == 1, "C04.T the second pass sees the remaining operation at the same depth");
				if script[1] == 2 {
					assert!(tree.depth == d0 - 1 && TR_REMOVALS == 1 && TR_REMOVED[0] == 100 && tree.root_index.map(|a| a.as_u64()) == Some(200), "C14.T a level lost on a later operation releases the old root");
				}
			},
			(1, 2) => {
				assert!(TR_DEPTH_SEEN[1] == d0 + 1 && TR_LEFT[1] == 1, "C04.T after a root split the next pass runs one level deeper");
			},
			_ => {},
		}
	}
	kani::cover!(unsafe { TR_CALLS } == nops);
	std::mem::forget(tree); std::mem::forget(ops); std::mem::forget(w); std::mem::forget(overlays);
}

macro_rules! c04_t {
	($name:ident, $has:expr, $n:expr, $script:expr) => {
		crate::verif_env! {
			#[kani::proof]
			#[kani::unwind(12)]
			#[kani::stub(crate::btree::btree::BTree::fetch_root, stub_fetch_root)]
			#[kani::stub(crate::btree::node::Node::fetch_child, stub_fetch_child_t)]
			#[kani::stub(crate::btree::node::Node::change, stub_change)]
			#[kani::stub(crate::btree::BTreeTable::write_node_plan, stub_write_node_plan_t)]
			#[kani::stub(crate::btree::BTreeTable::write_plan_remove_node, stub_remove_node_t)]
			fn $name() { root_case($has, $n, $script) }
		}
	};
}
c04_t!(c04_t_root_split_adds_level, true, 1, [1, 0]);
c04_t!(c04_t_first_root_split, false, 1, [1, 0]);
c04_t!(c04_t_root_emptied_loses_level, true, 1, [2, 0]);
c04_t!(c04_t_root_underfull_keeps_level, true, 1, [3, 0]);
c04_t!(c04_t_root_plain, true, 1, [0, 0]);
c04_t!(c04_t_first_root_created, false, 1, [0, 0]);
c04_t!(c04_t_two_ops_second_loses_level, true, 2, [0, 2]);
c04_t!(c04_t_two_ops_split_then_deeper, true, 2, [1, 0]);

// =====================================================================================
// C04.H: the tree header record (BTreeChangeSet::write_plan): after the changes of a commit were applied to the tree, the
// header entry at its fixed address is rewritten exactly when the root address or the depth changed, with exactly the new
// (root, depth) in the layout `btree_header` reads; `ops` grows by the number of operations.
// `BTree::open` / `BTree::write_sorted_changes` by contract (any old and any new (root, depth)), the value-table write is captured.
// =====================================================================================
pub static mut HD_OLD: (u64, u32) = (0, 0);
pub static mut HD_NEW: (u64, u32) = (0, 0);
pub static mut HD_WRITES: usize = 0;
pub static mut HD_ADDR: u64 = 0;
pub static mut HD_LEN: usize = 0;
pub static mut HD_BYTES: [u8; 12] = [0; 12];
pub static mut HD_IS_SET: bool = false;
pub fn stub_tree_open<Q: LogQuery>(_values: TablesRef, _log: &Q, record_id: u64) -> Result<BTree> {
	let (r, d) = unsafe { HD_OLD };
	Ok(BTree::new(if r == 0 { None } else { Some(Address::from_u64(r)) }, d, record_id))
}
pub fn stub_write_sorted_changes(t: &mut BTree, _changes: &[Operation<RcKey, RcValue>], _b: TablesRef, _l: &mut LogWriter) -> Result<()> {
	let (r, d) = unsafe { HD_NEW };
	t.root_index = if r == 0 { None } else { Some(Address::from_u64(r)) };
	t.depth = d;
	Ok(())
}
pub fn stub_write_header_value<K, V: AsRef<[u8]>>(_key: &TableKey, _t: TablesRef, address: Address, c: &Operation<K, V>, _l: &mut LogWriter,
	_s: Option<&crate::stats::ColumnStats>, _rc: bool) -> Result<(Option<crate::index::PlanOutcome>, Option<Address>)> {
	unsafe {
		HD_WRITES += 1;
		HD_ADDR = address.as_u64();
		if let Operation::Set(_, v) = c {
			HD_IS_SET = true;
			let b = v.as_ref();
			HD_LEN = b.len();
			let mut i = 0;
			while i < 12 { if i < b.len() { HD_BYTES[i] = b[i]; } i += 1; }
		}
	}
	Ok((Some(crate::index::PlanOutcome::Written), None))
}
crate::verif_env! {
	#[kani::proof]
	#[kani::unwind(14)]
	#[kani::stub(crate::btree::btree::BTree::open, stub_tree_open)]
	#[kani::stub(crate::btree::btree::BTree::write_sorted_changes, stub_write_sorted_changes)]
	#[kani::stub(crate::column::Column::write_existing_value_plan, stub_write_header_value)]
	fn c04_h_header_follows_root_and_depth() {
		unsafe { HD_OLD = kani::any(); HD_NEW = kani::any(); HD_WRITES = 0; HD_IS_SET = false; HD_LEN = 0; }
		let table = BTreeTable { id: 0, tables: RwLock::new(Vec::new()), ref_counted: false,
			compression: crate::compress::Compress::new(crate::compress::CompressionType::NoCompression, u32::MAX) };
		let mut cs = commit_overlay::BTreeChangeSet::new(0);
		let overlays = crate::log::verif_kani::new_overlays();
		let mut w = LogWriter::new(&overlays, 1);
		let mut ops: u64 = 5;
		cs.write_plan(&table, &mut w, &mut ops).unwrap();
		unsafe {
			let changed = HD_OLD != HD_NEW;
			assert!(HD_WRITES == if changed { 1 } else { 0 }, "C04.H the header is rewritten exactly when root address or depth changed");
			if changed {
				assert!(HD_ADDR == HEADER_ADDRESS.as_u64() && HD_IS_SET && HD_LEN == 12, "C04.H the header is a 12-byte value set at the fixed header address");
				let root = u64::from_le_bytes([HD_BYTES[0], HD_BYTES[1], HD_BYTES[2], HD_BYTES[3], HD_BYTES[4], HD_BYTES[5], HD_BYTES[6], HD_BYTES[7]]);
				let depth = u32::from_le_bytes([HD_BYTES[8], HD_BYTES[9], HD_BYTES[10], HD_BYTES[11]]);
				assert!(root == HD_NEW.0 && depth == HD_NEW.1, "C04.H the header records the new root address and the new depth");
			}
		}
		assert!(ops == 5, "C04.H an empty change set counts no operation");
		kani::cover!(unsafe { HD_WRITES } == 1 && unsafe { HD_OLD.0 == HD_NEW.0 });
		kani::cover!(unsafe { HD_WRITES } == 0);
		std::mem::forget(cs); std::mem::forget(table); std::mem::forget(w); std::mem::forget(overlays);
	}
}

/// The header reader inverts the header writer: `btree_header` over the bytes `write_header` produced.
pub static mut HR_BYTES: [u8; 12] = [0; 12];
pub static mut HR_PRESENT: bool = false;
pub fn stub_get_header_value<Q: LogQuery>(_key: TableKeyQuery, address: Address, _tables: TablesRef, _log: &Q) -> Result<Option<(u8, u32, Value)>> {
	assert!(address == HEADER_ADDRESS, "C04.H the header is read at the fixed header address");
	if !unsafe { HR_PRESENT } { return Ok(None) }
	let mut v = Vec::with_capacity(12);
	let mut i = 0;
	while i < 12 { v.push(unsafe { HR_BYTES[i] }); i += 1; }
	Ok(Some((address.size_tier(), 1, v)))
}
crate::verif_env! {
	#[kani::proof]
	#[kani::unwind(14)]
	#[kani::stub(crate::column::Column::get_value, stub_get_header_value)]
	fn c04_h_header_codec_roundtrip() {
		let root: u64 = kani::any();
		let depth: u32 = kani::any();
		let mut e = Entry::empty();
		e.write_header(&BTreeHeader { root: Address::from_u64(root), depth });
		{
			let enc = e.encoded.inner_mut();
			assert!(enc.len() == 12, "C04.H the encoded header has 12 bytes");
			let mut i = 0;
			while i < 12 { unsafe { HR_BYTES[i] = enc[i]; } i += 1; }
		}
		unsafe { HR_PRESENT = kani::any(); }
		let tables: [ValueTable; 0] = [];
		let compression = crate::compress::Compress::new(crate::compress::CompressionType::NoCompression, u32::MAX);
		let values = TablesRef { tables: &tables, compression: &compression, col: 0, preimage: false, ref_counted: false };
		let h = BTreeTable::btree_header(&crate::log::verif_kani::OvView, values).unwrap();
		if unsafe { HR_PRESENT } {
			assert!(h.root.as_u64() == root && h.depth == depth, "C04.H the header reader returns the root address and depth that were written");
		} else {
			assert!(h.root == NULL_ADDRESS && h.depth == 0, "C04.H a missing header is an empty tree");
		}
		std::mem::forget(e);
	}
}
