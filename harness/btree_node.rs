//! Harnesses for src/btree/node.rs: C04.B1 (position), C04.B2 (shift / remove / split on arbitrary sorted nodes).
#![allow(dead_code, unused_imports, static_mut_refs)]
use super::*;

fn sep(k: Vec<u8>, a: u64) -> Separator {
	Separator { modified: false, separator: Some(SeparatorInner { key: k, value: Address::from_u64(a) }) }
}

/// Arbitrary sorted node with n one- or two-byte keys (strictly increasing byte strings), children i -> address 100+i.
fn any_sorted_node(n: usize, has_child: bool) -> (Node, [[u8; 2]; 8], [usize; 8]) {
	let ks: [[u8; 2]; 8] = kani::any();
	let two: [bool; 8] = kani::any();
	let mut lens = [1usize; 8];
	let mut node = Node { separators: Default::default(), children: Default::default(), changed: false };
	let mut i = 0;
	while i < 8 {
		if i < n {
			lens[i] = if two[i] { 2 } else { 1 };
			if i > 0 {
				// strictly increasing as byte strings
				let a = &ks[i - 1][..lens[i - 1]];
				let b = &ks[i][..lens[i]];
				kani::assume(a < b);
			}
			node.separators[i] = sep(ks[i][..lens[i]].to_vec(), 1 + i as u64);
		}
		i += 1;
	}
	if has_child {
		let mut c = 0;
		while c <= 8 { if c <= n { node.children[c] = Child { moved: false, entry_index: Some(Address::from_u64(100 + c as u64)) }; } c += 1; }
	}
	(node, ks, lens)
}

fn key_at(node: &Node, i: usize) -> Option<(u8, usize, u64)> {
	node.separators[i].separator.as_ref().map(|s| (s.key[0], s.key.len(), s.value.as_u64()))
}
fn child_at(node: &Node, i: usize) -> Option<u64> { node.children[i].entry_index.map(|a| a.as_u64()) }

/// C04.B1: position(key) = (true, i) iff separator i equals key; else i = number of separators smaller than key.
#[kani::proof]
#[kani::unwind(12)]
fn c04_b1_position() {
	let n: usize = kani::any();
	kani::assume(n <= 8);
	let mut c = 0;
	while c <= 8 {
		if c == n {
			let (node, ks, lens) = any_sorted_node(c, false);
			let key: [u8; 2] = kani::any();
			let kl: usize = kani::any();
			kani::assume(kl >= 1 && kl <= 2);
			let (at, i) = node.position(&key[..kl]).unwrap();
			assert!(i <= c, "C04.B1 position within the node");
			if at {
				assert!(i < c && ks[i][..lens[i]] == key[..kl], "C04.B1 exact hit is the equal separator");
			} else {
				if i < c { assert!(key[..kl] < ks[i][..lens[i]], "C04.B1 next separator is larger"); }
				if i > 0 { assert!(ks[i - 1][..lens[i - 1]] < key[..kl], "C04.B1 previous separator is smaller"); }
			}
			assert!(node.number_separator() == c, "C04.B1 separator count");
			std::mem::forget(node);
		}
		c += 1;
	}
}

/// C04.B2a: shift_from(f) opens a hole at f and moves separators f.. (and children) one to the right, order kept.
fn shift_case(n: usize, f: usize, has_child: bool, with_left: bool) {
	let (mut node, ks, lens) = any_sorted_node(n, has_child);
	node.shift_from(f, has_child, with_left);
	assert!(node.separators[f].separator.is_none(), "C04.B2 hole at the insertion point");
	assert!(node.changed, "C04.B2 node marked changed");
	let j: usize = kani::any();
	kani::assume(j < n);
	let dst = if j < f { j } else { j + 1 };
	assert!(key_at(&node, dst) == Some((ks[j][0], lens[j], 1 + j as u64)), "C04.B2 shift keeps every separator, in order");
	if has_child {
		let cf = if with_left { f } else { f + 1 };
		let c: usize = kani::any();
		kani::assume(c <= n);
		let dstc = if c < cf { c } else { c + 1 };
		assert!(child_at(&node, dstc) == Some(100 + c as u64), "C04.B2 shift keeps every child, in order");
		assert!(child_at(&node, cf).is_none(), "C04.B2 hole in the children at the insertion point");
	}
	std::mem::forget(node);
}

/// C04.B2b: remove_from(f) closes the hole at f (separator f must have been taken out): separators f+1.. move left.
fn remove_case(n: usize, f: usize, has_child: bool, with_left: bool) {
	let (mut node, ks, lens) = any_sorted_node(n, has_child);
	let _ = node.remove_separator(f);
	let cf = if with_left { f } else { f + 1 };
	if has_child { let _ = node.remove_child(cf); }
	node.remove_from(f, has_child, with_left);
	let j: usize = kani::any();
	kani::assume(j < n && j != f);
	let dst = if j < f { j } else { j - 1 };
	assert!(key_at(&node, dst) == Some((ks[j][0], lens[j], 1 + j as u64)), "C04.B2 remove keeps every other separator, in order");
	assert!(node.number_separator() == n - 1, "C04.B2 exactly one separator fewer");
	if has_child {
		let c: usize = kani::any();
		kani::assume(c <= n && c != cf);
		let dstc = if c < cf { c } else { c - 1 };
		assert!(child_at(&node, dstc) == Some(100 + c as u64), "C04.B2 remove keeps every other child, in order");
		assert!(child_at(&node, n).is_none(), "C04.B2 last child slot emptied");
	}
	std::mem::forget(node);
}

macro_rules! c04_b2 {
	($name:ident, $f:ident, $n:expr, $hc:expr, $wl:expr) => {
		#[kani::proof]
		#[kani::unwind(12)]
		fn $name() {
			let f: usize = kani::any();
			kani::assume(f < $n);
			let mut c = 0;
			while c < $n { if c == f { $f($n, c, $hc, $wl); } c += 1; }
		}
	};
}
c04_b2!(c04_b2_shift_from_leaf_n7, shift_case, 7, false, false);
c04_b2!(c04_b2_shift_from_inner_n7_right, shift_case, 7, true, false);
c04_b2!(c04_b2_shift_from_inner_n7_left, shift_case, 7, true, true);
c04_b2!(c04_b2_shift_from_inner_n4_left, shift_case, 4, true, true);
c04_b2!(c04_b2_remove_from_leaf_n8, remove_case, 8, false, false);
c04_b2!(c04_b2_remove_from_inner_n8_right, remove_case, 8, true, false);
c04_b2!(c04_b2_remove_from_inner_n8_left, remove_case, 8, true, true);
c04_b2!(c04_b2_remove_from_inner_n5_left, remove_case, 5, true, true);

/// C04.B2c: split(at) of a full node: left keeps separators [0, at), right gets [at, 8) in order; children likewise.
fn split_case(at: usize, has_child: bool) {
	let (mut node, ks, lens) = any_sorted_node(8, has_child);
	let (right, _ix) = node.split(at, false, None, None, has_child);
	let j: usize = kani::any();
	kani::assume(j < 8);
	if j < at {
		assert!(key_at(&node, j) == Some((ks[j][0], lens[j], 1 + j as u64)), "C04.B2 split: left half keeps its separators");
	} else {
		assert!(key_at(&node, j).is_none(), "C04.B2 split: moved separators leave the left node");
		assert!(key_at(&right, j - at) == Some((ks[j][0], lens[j], 1 + j as u64)), "C04.B2 split: right half receives them in order");
	}
	assert!(node.number_separator() == at && right.number_separator() == 8 - at, "C04.B2 split: no separator lost or duplicated");
	if has_child {
		let c: usize = kani::any();
		kani::assume(c <= 8);
		if c < at { assert!(child_at(&node, c) == Some(100 + c as u64), "C04.B2 split: left children stay"); }
		else { assert!(child_at(&right, c - at) == Some(100 + c as u64) && child_at(&node, c).is_none(), "C04.B2 split: right children move in order"); }
	}
	assert!(right.changed && node.changed, "C04.B2 split: both nodes marked changed");
	std::mem::forget(node); std::mem::forget(right);
}

#[kani::proof]
#[kani::unwind(12)]
fn c04_b2_split_leaf() {
	let at: usize = kani::any();
	kani::assume(at >= 1 && at <= 7);
	let mut c = 1;
	while c <= 7 { if c == at { split_case(c, false); } c += 1; }
}
#[kani::proof]
#[kani::unwind(12)]
fn c04_b2_split_inner() {
	let at: usize = kani::any();
	kani::assume(at >= 3 && at <= 5);
	let mut c = 3;
	while c <= 5 { if c == at { split_case(c, true); } c += 1; }
}

/// Must-fail twin for the node family.
#[kani::proof]
#[kani::unwind(12)]
fn c04_twin_must_fail() {
	let (node, _ks, _lens) = any_sorted_node(3, false);
	let key: [u8; 1] = kani::any();
	let (at, _i) = node.position(&key).unwrap();
	assert!(!at, "TWIN a key is never found (must fail)");
	std::mem::forget(node);
}

// =====================================================================================
// C04.R: Node::rebalance on a parent with three children held in the harness (fetch_child / write_node_plan /
// write_plan_remove_node by contract): whichever of borrow-from-left, borrow-from-right or merge is taken, the in-order
// sequence of (key, value address) pairs and the left-to-right sequence of grandchildren are exactly what they were,
// the under-full child is repaired, and a merged-away node is released exactly once.
// =====================================================================================
pub static mut RB_KEYS: [[u8; 8]; 3] = [[0; 8]; 3];
pub static mut RB_N: [usize; 3] = [0; 3];
pub static mut RB_INNER: bool = false;
pub static mut RB_WROTE: [bool; 3] = [false; 3];
pub static mut RB_OUT: [std::mem::MaybeUninit<Node>; 3] = [std::mem::MaybeUninit::uninit(), std::mem::MaybeUninit::uninit(), std::mem::MaybeUninit::uninit()];
pub static mut RB_REMOVED: [bool; 3] = [false; 3];
pub static mut RB_REMOVALS: usize = 0;

fn rb_child(c: usize) -> Node {
	let mut node = Node { separators: Default::default(), children: Default::default(), changed: false };
	unsafe {
		let mut j = 0;
		while j < 8 { if j < RB_N[c] { node.separators[j] = sep(vec![RB_KEYS[c][j]], (10 * c + j + 1) as u64); } j += 1; }
		if RB_INNER {
			let mut j = 0;
			while j <= 8 { if j <= RB_N[c] { node.children[j] = Child { moved: false, entry_index: Some(Address::from_u64((1000 + 10 * c + j) as u64)) }; } j += 1; }
		}
	}
	node
}

pub fn stub_fetch_child<Q: LogQuery>(n: &Node, i: usize, _values: TablesRef, _log: &Q) -> Result<Option<Node>> {
	match n.children[i].entry_index {
		Some(a) => {
			let c = (a.as_u64() - 200) as usize;
			assert!(c < 3, "harness: parent children are 200..=202");
			// a node already rewritten in this call is read back as written (the record overlay would return it)
			if unsafe { RB_WROTE[c] } { Ok(Some(unsafe { RB_OUT[c].assume_init_ref().clone() })) } else { Ok(Some(rb_child(c))) }
		},
		None => Ok(None),
	}
}

pub fn stub_write_node_plan(_t: TablesRef, node: Node, _w: &mut LogWriter, node_id: Option<Address>) -> Result<Option<Address>> {
	let c = (node_id.expect("C04.R rebalance rewrites existing nodes").as_u64() - 200) as usize;
	assert!(c < 3, "harness: only the three children are written");
	unsafe { RB_OUT[c].as_mut_ptr().write(node); RB_WROTE[c] = true; }
	Ok(None)
}

pub fn stub_remove_node(_t: TablesRef, _w: &mut LogWriter, node_index: Address) -> Result<()> {
	let c = (node_index.as_u64() - 200) as usize;
	assert!(c < 3, "harness: only children can be released");
	unsafe { assert!(!RB_REMOVED[c], "C04.R a merged-away node is released once"); RB_REMOVED[c] = true; RB_REMOVALS += 1; }
	Ok(())
}

/// sizes = separators in children 0..3 (the child `at` is the under-full one); parent has two separators.
fn rebalance_case(sizes: [usize; 3], at: usize, inner: bool) {
	let pk: [u8; 2] = kani::any();
	unsafe {
		RB_KEYS = kani::any(); RB_N = sizes; RB_INNER = inner;
		RB_WROTE = [false; 3]; RB_REMOVED = [false; 3]; RB_REMOVALS = 0;
	}
	let mut parent = Node { separators: Default::default(), children: Default::default(), changed: false };
	parent.separators[0] = sep(vec![pk[0]], 91);
	parent.separators[1] = sep(vec![pk[1]], 92);
	let mut c = 0;
	while c < 3 { parent.children[c] = Child { moved: false, entry_index: Some(Address::from_u64(200 + c as u64)) }; c += 1; }
	// expected in-order sequence of (key, value) and of grandchildren
	let mut want: [(u8, u64); 26] = [(0, 0); 26];
	let mut wn = 0;
	let mut wantc: [u64; 27] = [0; 27];
	let mut wcn = 0;
	let mut c = 0;
	while c < 3 {
		let mut j = 0;
		while j < 8 { if j < sizes[c] { want[wn] = (unsafe { RB_KEYS[c][j] }, (10 * c + j + 1) as u64); wn += 1; } j += 1; }
		if inner { let mut j = 0; while j <= 8 { if j <= sizes[c] { wantc[wcn] = (1000 + 10 * c + j) as u64; wcn += 1; } j += 1; } }
		if c < 2 { want[wn] = (pk[c], 91 + c as u64); wn += 1; }
		c += 1;
	}
	let tables: [ValueTable; 0] = [];
	let compression = crate::compress::Compress::new(crate::compress::CompressionType::NoCompression, u32::MAX);
	let values = TablesRef { tables: &tables, compression: &compression, col: 0, preimage: false, ref_counted: false };
	let overlays = crate::log::verif_kani::new_overlays();
	let mut w = LogWriter::new(&overlays, 1);
	let depth = if inner { 2 } else { 1 };
	parent.rebalance(depth, at, values, &mut w).unwrap();
	// read the tree back
	let mut got: [(u8, u64); 26] = [(0, 0); 26];
	let mut gn = 0;
	let mut gotc: [u64; 27] = [0; 27];
	let mut gcn = 0;
	let np = parent.number_separator();
	let mut i = 0;
	while i < 3 {
		if i <= np {
			let a = parent.children[i].entry_index.expect("C04.R parent keeps a child left of / right of each separator").as_u64();
			let c = (a - 200) as usize;
			assert!(!unsafe { RB_REMOVED[c] }, "C04.R the parent never keeps a released node");
			let node = if unsafe { RB_WROTE[c] } { unsafe { RB_OUT[c].assume_init_ref().clone() } } else { rb_child(c) };
			let n = node.number_separator();
			assert!(n >= 4 && n <= 8, "C04.R every child is within [ORDER/2, ORDER] separators after rebalancing");
			let mut j = 0;
			while j < 8 {
				if j < n { let s = node.separators[j].separator.as_ref().unwrap(); got[gn] = (s.key[0], s.value.as_u64()); gn += 1; }
				else { assert!(node.separators[j].separator.is_none(), "C04.R separators stay packed"); }
				j += 1;
			}
			if inner {
				let mut j = 0;
				while j <= 8 {
					if j <= n { gotc[gcn] = node.children[j].entry_index.expect("C04.R inner node has one more child than separators").as_u64(); gcn += 1; }
					else { assert!(node.children[j].entry_index.is_none(), "C04.R children stay packed"); }
					j += 1;
				}
			}
			std::mem::forget(node);
			if i < np { let s = parent.separators[i].separator.as_ref().unwrap(); got[gn] = (s.key[0], s.value.as_u64()); gn += 1; }
		} else {
			assert!(parent.children[i].entry_index.is_none(), "C04.R parent children stay packed");
		}
		i += 1;
	}
	assert!(gn == wn, "C04.R no key is lost or duplicated by rebalancing");
	assert!(gcn == wcn, "C04.R no grandchild is lost or duplicated by rebalancing");
	let j: usize = kani::any();
	kani::assume(j < 26);
	if j < wn { assert!(got[j] == want[j], "C04.R rebalancing keeps the in-order sequence of keys and value addresses"); }
	let k: usize = kani::any();
	kani::assume(k < 27);
	if k < wcn { assert!(gotc[k] == wantc[k], "C04.R rebalancing keeps the left-to-right order of grandchildren"); }
	assert!(unsafe { RB_REMOVALS } == 2 - np, "C04.R a node is released exactly when two children were merged");
	assert!(parent.changed || np == 2, "C04.R a parent that lost a separator is marked changed");
	kani::cover!(unsafe { RB_WROTE[0] || RB_WROTE[1] || RB_WROTE[2] });
	std::mem::forget(parent); std::mem::forget(w); std::mem::forget(overlays);
}

macro_rules! c04_r {
	($name:ident, $sizes:expr, $at:expr, $inner:expr) => {
		crate::verif_env! {
			#[kani::proof]
			#[kani::unwind(12)]
			#[kani::stub(crate::btree::node::Node::fetch_child, stub_fetch_child)]
			#[kani::stub(crate::btree::BTreeTable::write_node_plan, stub_write_node_plan)]
			#[kani::stub(crate::btree::BTreeTable::write_plan_remove_node, stub_remove_node)]
			fn $name() { rebalance_case($sizes, $at, $inner) }
		}
	};
}
c04_r!(c04_r_rebalance_borrow_left_inner, [5, 3, 4], 1, true);
c04_r!(c04_r_rebalance_borrow_left_leaf, [6, 3, 4], 1, false);
c04_r!(c04_r_rebalance_borrow_right_inner_first, [3, 5, 4], 0, true);
c04_r!(c04_r_rebalance_borrow_right_inner_mid, [4, 3, 6], 1, true);
c04_r!(c04_r_rebalance_borrow_right_leaf, [3, 5, 4], 0, false);
c04_r!(c04_r_rebalance_merge_mid_inner, [4, 3, 4], 1, true);
c04_r!(c04_r_rebalance_merge_last_inner, [4, 4, 3], 2, true);
c04_r!(c04_r_rebalance_merge_first_leaf, [3, 4, 4], 0, false);

// =====================================================================================
// C04.I: Node::change(Set) on a two-level tree (root with three children held by the harness): after inserting a key
// anywhere — into a child with room, into a full child (split: the promoted separator and the new right sibling land in
// the root), onto an existing key (overwrite) — the in-order sequence of keys is the old sequence with the key added in
// sorted position exactly once, and every other (key, value address) pair is untouched.
// Pre-state: any valid two-level tree of the given child sizes (all keys strictly increasing in order).
// =====================================================================================
pub static mut NS_WROTE: [bool; 6] = [false; 6];
pub static mut NS_OUT: [std::mem::MaybeUninit<Node>; 6] = [std::mem::MaybeUninit::uninit(), std::mem::MaybeUninit::uninit(), std::mem::MaybeUninit::uninit(),
	std::mem::MaybeUninit::uninit(), std::mem::MaybeUninit::uninit(), std::mem::MaybeUninit::uninit()];
pub static mut NS_NEW: usize = 0;
fn ns_slot(a: u64) -> usize { if a >= 300 { 3 + (a - 300) as usize } else { (a - 200) as usize } }

pub fn stub_fetch_child_ns<Q: LogQuery>(n: &Node, i: usize, _values: TablesRef, _log: &Q) -> Result<Option<Node>> {
	match n.children[i].entry_index {
		Some(a) => {
			let c = ns_slot(a.as_u64());
			assert!(c < 6, "harness: node store");
			if unsafe { NS_WROTE[c] } { Ok(Some(unsafe { NS_OUT[c].assume_init_ref().clone() })) } else { assert!(c < 3); Ok(Some(rb_child(c))) }
		},
		None => Ok(None),
	}
}
/// Existing nodes are rewritten in place, new nodes get addresses 300, 301, ...
pub fn stub_write_node_plan_ns(_t: TablesRef, node: Node, _w: &mut LogWriter, node_id: Option<Address>) -> Result<Option<Address>> {
	unsafe {
		match node_id {
			Some(a) => { let c = ns_slot(a.as_u64()); assert!(c < 6); NS_OUT[c].as_mut_ptr().write(node); NS_WROTE[c] = true; Ok(None) },
			None => { let c = 3 + NS_NEW; assert!(c < 6, "harness: at most three new nodes"); NS_OUT[c].as_mut_ptr().write(node); NS_WROTE[c] = true; NS_NEW += 1; Ok(Some(Address::from_u64(300 + (c - 3) as u64))) },
		}
	}
}
pub const NEW_VALUE: u64 = 7777;
pub fn stub_create_separator(key: &[u8], _value: &[u8], _b: TablesRef, _l: &mut LogWriter, existing: Option<Address>) -> Result<Separator> {
	let value = existing.unwrap_or(Address::from_u64(NEW_VALUE));
	Ok(Separator { modified: Some(value) != existing, separator: Some(SeparatorInner { key: key.to_vec(), value }) })
}

fn collect_node(node: &Node, out: &mut [(u8, u64); 30], n: &mut usize) {
	let k = node.number_separator();
	let mut j = 0;
	while j < 8 {
		if j < k { let s = node.separators[j].separator.as_ref().unwrap(); assert!(s.key.len() == 1); out[*n] = (s.key[0], s.value.as_u64()); *n += 1; }
		else { assert!(node.separators[j].separator.is_none(), "C04.I separators stay packed"); }
		j += 1;
	}
}
fn collect_tree(root: &Node, out: &mut [(u8, u64); 30], n: &mut usize) {
	let np = root.number_separator();
	let mut i = 0;
	while i < 9 {
		if i <= np {
			let a = root.children[i].entry_index.expect("C04.I an inner node has one more child than separators").as_u64();
			let c = ns_slot(a);
			let node = if unsafe { NS_WROTE[c] } { unsafe { NS_OUT[c].assume_init_ref().clone() } } else { rb_child(c) };
			assert!(node.number_separator() >= 1, "C04.I no empty leaf");
			collect_node(&node, out, n);
			std::mem::forget(node);
			if i < np { let s = root.separators[i].separator.as_ref().unwrap(); out[*n] = (s.key[0], s.value.as_u64()); *n += 1; }
		} else {
			assert!(root.children[i].entry_index.is_none(), "C04.I children stay packed");
		}
		i += 1;
	}
}

/// `key` and the two root separators are concrete (so the descent picks one concrete child), every leaf key is symbolic:
/// the slot inside the leaf, the three split variants (insert left of / at / right of the middle) and the overwrite of an
/// equal leaf key are decided symbolically. (With the key symbolic as well, all three subtrees are explored at once: 40 GB.)
fn insert_case(sizes: [usize; 3], key: u8) {
	let pk: [u8; 2] = [100, 200];
	unsafe { RB_KEYS = kani::any(); RB_N = sizes; RB_INNER = false; NS_WROTE = [false; 6]; NS_NEW = 0; }
	let mut root = Node { separators: Default::default(), children: Default::default(), changed: false };
	root.separators[0] = sep(vec![pk[0]], 91);
	root.separators[1] = sep(vec![pk[1]], 92);
	let mut c = 0;
	while c < 3 { root.children[c] = Child { moved: false, entry_index: Some(Address::from_u64(200 + c as u64)) }; c += 1; }
	// the old in-order sequence, strictly increasing
	let mut old: [(u8, u64); 30] = [(0, 0); 30];
	let mut on = 0;
	collect_tree(&root, &mut old, &mut on);
	let mut j = 1;
	while j < 30 { if j < on { kani::assume(old[j - 1].0 < old[j].0); } j += 1; }
	let tables: [ValueTable; 0] = [];
	let compression = crate::compress::Compress::new(crate::compress::CompressionType::NoCompression, u32::MAX);
	let values = TablesRef { tables: &tables, compression: &compression, col: 0, preimage: false, ref_counted: false };
	let overlays = crate::log::verif_kani::new_overlays();
	let mut w = LogWriter::new(&overlays, 1);
	let ops: [Operation<RcKey, RcValue>; 1] = [Operation::Set(vec![key].into(), vec![9u8].into())];
	let mut changes: &[Operation<RcKey, RcValue>] = &ops;
	let r = root.change(None, 1, &mut changes, values, &mut w).unwrap();
	// new sequence: the root, and — if the root itself split — the promoted separator and the new right root half
	let mut new: [(u8, u64); 30] = [(0, 0); 30];
	let mut nn = 0;
	collect_tree(&root, &mut new, &mut nn);
	assert!(r.0.is_none(), "C04.I a root with two separators has room for one more");
	assert!(!r.1, "C04.I inserting never leaves a node under-full");
	// specification: sorted insert
	let mut exists = false;
	let mut pos = 0;
	let mut j = 0;
	while j < 30 { if j < on { if old[j].0 == key { exists = true; } if old[j].0 < key { pos = j + 1; } } j += 1; }
	assert!(nn == if exists { on } else { on + 1 }, "C04.I an insert adds exactly one key; an overwrite adds none");
	let q: usize = kani::any();
	kani::assume(q < 30);
	if q < nn {
		let want = if exists { if q == pos { (key, old[q].1) } else { old[q] } }
			else if q < pos { old[q] } else if q == pos { (key, NEW_VALUE) } else { old[q - 1] };
		assert!(new[q] == want, "C04.I the tree holds the old keys in order with the new key at its sorted position (overwrite keeps the slot)");
	}
	kani::cover!(exists || unsafe { NS_NEW } >= 1 || nn == on + 1);
	std::mem::forget(r); std::mem::forget(ops); std::mem::forget(root); std::mem::forget(w); std::mem::forget(overlays);
}

macro_rules! c04_i {
	($name:ident, $sizes:expr, $key:expr) => {
		crate::verif_env! {
			#[kani::proof]
			#[kani::unwind(32)]
			#[kani::stub(crate::btree::node::Node::fetch_child, stub_fetch_child_ns)]
			#[kani::stub(crate::btree::BTreeTable::write_node_plan, stub_write_node_plan_ns)]
			#[kani::stub(crate::btree::node::Node::create_separator, stub_create_separator)]
			fn $name() { insert_case($sizes, $key) }
		}
	};
}
c04_i!(c04_i_insert_into_full_middle_leaf, [4, 8, 5], 150);
c04_i!(c04_i_insert_into_full_first_leaf, [8, 4, 5], 50);
c04_i!(c04_i_insert_into_full_last_leaf, [4, 5, 8], 250);
c04_i!(c04_i_insert_into_leaf_with_room, [4, 6, 5], 150);
c04_i!(c04_i_overwrite_root_separator, [4, 6, 5], 100);

// =====================================================================================
// C04.D: Node::change(Dereference) and Node::remove_last on the same two-level tree: removing a key from a leaf, a key
// that is a separator of the root (replaced by its in-order predecessor from the left child), or an absent key; the tree
// afterwards holds exactly the other keys, in order, with their value addresses, and every leaf is at least half full
// again (borrow / merge through the real rebalance).
// =====================================================================================
pub static mut RM_VALUE_CALLS: usize = 0;
pub static mut RM_VALUE_ADDR: u64 = 0;
pub fn stub_remove_value<K, V: AsRef<[u8]>>(_key: &TableKey, _t: TablesRef, address: Address, _c: &Operation<K, V>, _l: &mut LogWriter,
	_s: Option<&crate::stats::ColumnStats>, _rc: bool) -> Result<(Option<crate::index::PlanOutcome>, Option<Address>)> {
	unsafe { RM_VALUE_CALLS += 1; RM_VALUE_ADDR = address.as_u64(); }
	Ok((None, None))
}
pub fn stub_remove_node_ns(_t: TablesRef, _w: &mut LogWriter, node_index: Address) -> Result<()> {
	let c = ns_slot(node_index.as_u64());
	assert!(c < 3, "harness: only the original children can be released");
	unsafe { assert!(!RB_REMOVED[c], "C04.D a merged-away node is released once"); RB_REMOVED[c] = true; RB_REMOVALS += 1; }
	Ok(())
}

fn two_level_tree(sizes: [usize; 3]) -> (Node, [(u8, u64); 30], usize) {
	let pk: [u8; 2] = [100, 200]; // concrete root separators: the descent is concrete, the leaves are symbolic (see insert_case)
	unsafe { RB_KEYS = kani::any(); RB_N = sizes; RB_INNER = false; NS_WROTE = [false; 6]; NS_NEW = 0; RB_REMOVED = [false; 3]; RB_REMOVALS = 0; RM_VALUE_CALLS = 0; }
	let mut root = Node { separators: Default::default(), children: Default::default(), changed: false };
	root.separators[0] = sep(vec![pk[0]], 91);
	root.separators[1] = sep(vec![pk[1]], 92);
	let mut c = 0;
	while c < 3 { root.children[c] = Child { moved: false, entry_index: Some(Address::from_u64(200 + c as u64)) }; c += 1; }
	let mut old: [(u8, u64); 30] = [(0, 0); 30];
	let mut on = 0;
	collect_tree(&root, &mut old, &mut on);
	let mut j = 1;
	while j < 30 { if j < on { kani::assume(old[j - 1].0 < old[j].0); } j += 1; }
	(root, old, on)
}

fn check_removed(root: &Node, old: &[(u8, u64); 30], on: usize, gone: usize) {
	let mut new: [(u8, u64); 30] = [(0, 0); 30];
	let mut nn = 0;
	collect_tree(root, &mut new, &mut nn);
	assert!(nn == if gone < on { on - 1 } else { on }, "C04.D a removal takes out exactly one key; removing an absent key none");
	let q: usize = kani::any();
	kani::assume(q < 30);
	if q < nn {
		let want = if q < gone { old[q] } else { old[q + 1] };
		assert!(new[q] == want, "C04.D every other key stays, in order, with its value address");
	}
	// balance: every remaining leaf holds at least ORDER/2 separators
	let np = root.number_separator();
	let mut i = 0;
	while i < 3 {
		if i <= np {
			let c = ns_slot(root.children[i].entry_index.unwrap().as_u64());
			assert!(!unsafe { RB_REMOVED[c] }, "C04.D the root never keeps a released leaf");
			let node = if unsafe { NS_WROTE[c] } { unsafe { NS_OUT[c].assume_init_ref().clone() } } else { rb_child(c) };
			assert!(node.number_separator() >= 4, "C04.D leaves are at least half full after a removal");
			std::mem::forget(node);
		}
		i += 1;
	}
	assert!(unsafe { RB_REMOVALS } == 2 - np, "C04.D a leaf is released exactly when two leaves were merged");
}

fn remove_case2(sizes: [usize; 3], key: u8) {
	let (mut root, old, on) = two_level_tree(sizes);
	let tables: [ValueTable; 0] = [];
	let compression = crate::compress::Compress::new(crate::compress::CompressionType::NoCompression, u32::MAX);
	let values = TablesRef { tables: &tables, compression: &compression, col: 0, preimage: false, ref_counted: false };
	let overlays = crate::log::verif_kani::new_overlays();
	let mut w = LogWriter::new(&overlays, 1);
	let ops: [Operation<RcKey, RcValue>; 1] = [Operation::Dereference(vec![key].into())];
	let mut changes: &[Operation<RcKey, RcValue>] = &ops;
	let r = root.change(None, 1, &mut changes, values, &mut w).unwrap();
	assert!(r.0.is_none(), "C04.D a removal never splits");
	let mut gone = 30;
	let mut j = 0;
	while j < 30 { if j < on && old[j].0 == key { gone = j; } j += 1; }
	if gone < on {
		assert!(unsafe { RM_VALUE_CALLS } == 1 && unsafe { RM_VALUE_ADDR } == old[gone].1, "C04.D the removed key's own value is released, once");
	} else {
		assert!(unsafe { RM_VALUE_CALLS } == 0, "C04.D removing an absent key releases nothing");
	}
	check_removed(&root, &old, on, gone);
	kani::cover!(gone < on || key != 100);
	std::mem::forget(r); std::mem::forget(ops); std::mem::forget(root); std::mem::forget(w); std::mem::forget(overlays);
}

fn remove_last_case(sizes: [usize; 3]) {
	let (mut root, old, on) = two_level_tree(sizes);
	let tables: [ValueTable; 0] = [];
	let compression = crate::compress::Compress::new(crate::compress::CompressionType::NoCompression, u32::MAX);
	let values = TablesRef { tables: &tables, compression: &compression, col: 0, preimage: false, ref_counted: false };
	let overlays = crate::log::verif_kani::new_overlays();
	let mut w = LogWriter::new(&overlays, 1);
	let (_need, got) = root.remove_last(1, values, &mut w).unwrap();
	let s = got.expect("C04.D remove_last of a non-empty subtree yields its largest key").separator.expect("C04.D the yielded separator is filled");
	assert!(s.key.len() == 1 && (s.key[0], s.value.as_u64()) == old[on - 1], "C04.D remove_last yields the in-order last (key, value)");
	check_removed(&root, &old, on, on - 1);
	kani::cover!(root.number_separator() == 1);
	std::mem::forget(s); std::mem::forget(root); std::mem::forget(w); std::mem::forget(overlays);
}

macro_rules! c04_d {
	($name:ident, $f:ident ( $($a:expr),* )) => {
		crate::verif_env! {
			#[kani::proof]
			#[kani::unwind(32)]
			#[kani::stub(crate::btree::node::Node::fetch_child, stub_fetch_child_ns)]
			#[kani::stub(crate::btree::BTreeTable::write_node_plan, stub_write_node_plan_ns)]
			#[kani::stub(crate::btree::BTreeTable::write_plan_remove_node, stub_remove_node_ns)]
			#[kani::stub(crate::column::Column::write_existing_value_plan, stub_remove_value)]
			fn $name() { $f($($a),*) }
		}
	};
}
c04_d!(c04_d_remove_from_minimal_middle_leaf, remove_case2([4, 4, 4], 150));
c04_d!(c04_d_remove_from_minimal_first_leaf, remove_case2([4, 5, 4], 50));
c04_d!(c04_d_remove_from_minimal_last_leaf, remove_case2([6, 4, 4], 250));
c04_d!(c04_d_remove_from_leaf_with_spare, remove_case2([4, 6, 4], 150));
c04_d!(c04_d_remove_root_separator_minimal, remove_case2([4, 4, 4], 100));
c04_d!(c04_d_remove_root_separator_spare, remove_case2([6, 4, 4], 200));
c04_d!(c04_d_remove_last_minimal_leaves, remove_last_case([4, 4, 4]));
c04_d!(c04_d_remove_last_borrow, remove_last_case([4, 6, 4]));
