//! Harnesses for src/btree/node.rs: C04.B1 (position), C04.B2 (shift / remove / split on arbitrary sorted nodes).
#![allow(dead_code, unused_imports, static_mut_refs)]
use super::*;

fn sep(k: Vec<u8>, a: u64) -> Separator {
	Separator { modified: false, separator: Some(SeparatorInner { key: k, value: Address::from_u64(a) }) }
}

/// Arbitrary sorted node with n one- or two-byte keys (strictly increasing byte strings), children i -> address 100+i.
fn any_sorted_node(n: usize, has_child: bool) -> (Node, [[u8; 2]; 8], [usize; 8]) {
	let ks: [[u8; 2]; 8] = kani::any();
	let two: [bool; 8] = kani::any();
	let mut lens = [1usize; 8];
	let mut node = Node { separators: Default::default(), children: Default::default(), changed: false };
	let mut i = 0;
	while i < 8 {
		if i < n {
			lens[i] = if two[i] { 2 } else { 1 };
			if i > 0 {
				// strictly increasing as byte strings
				let a = &ks[i - 1][..lens[i - 1]];
				let b = &ks[i][..lens[i]];
				kani::assume(a < b);
			}
			node.separators[i] = sep(ks[i][..lens[i]].to_vec(), 1 + i as u64);
		}
		i += 1;
	}
	if has_child {
		let mut c = 0;
		while c <= 8 { if c <= n { node.children[c] = Child { moved: false, entry_index: Some(Address::from_u64(100 + c as u64)) }; } c += 1; }
	}
	(node, ks, lens)
}

fn key_at(node: &Node, i: usize) -> Option<(u8, usize, u64)> {
	node.separators[i].separator.as_ref().map(|s| (s.key[0], s.key.len(), s.value.as_u64()))
}
fn child_at(node: &Node, i: usize) -> Option<u64> { node.children[i].entry_index.map(|a| a.as_u64()) }

/// C04.B1: position(key) = (true, i) iff separator i equals key; else i = number of separators smaller than key.
#[kani::proof]
#[kani::unwind(12)]
fn c04_b1_position() {
	let n: usize = kani::any();
	kani::assume(n <= 8);
	let mut c = 0;
	while c <= 8 {
		if c == n {
			let (node, ks, lens) = any_sorted_node(c, false);
			let key: [u8; 2] = kani::any();
			let kl: usize = kani::any();
			kani::assume(kl >= 1 && kl <= 2);
			let (at, i) = node.position(&key[..kl]).unwrap();
			assert!(i <= c, "C04.B1 position within the node");
			if at {
				assert!(i < c && ks[i][..lens[i]] == key[..kl], "C04.B1 exact hit is the equal separator");
			} else {
				if i < c { assert!(key[..kl] < ks[i][..lens[i]], "C04.B1 next separator is larger"); }
				if i > 0 { assert!(ks[i - 1][..lens[i - 1]] < key[..kl], "C04.B1 previous separator is smaller"); }
			}
			assert!(node.number_separator() == c, "C04.B1 separator count");
			std::mem::forget(node);
		}
		c += 1;
	}
}

/// C04.B2a: shift_from(f) opens a hole at f and moves separators f.. (and children) one to the right, order kept.
fn shift_case(n: usize, f: usize, has_child: bool, with_left: bool) {
	let (mut node, ks, lens) = any_sorted_node(n, has_child);
	node.shift_from(f, has_child, with_left);
	assert!(node.separators[f].separator.is_none(), "C04.B2 hole at the insertion point");
	assert!(node.changed, "C04.B2 node marked changed");
	let j: usize = kani::any();
	kani::assume(j < n);
	let dst = if j < f { j } else { j + 1 };
	assert!(key_at(&node, dst) == Some((ks[j][0], lens[j], 1 + j as u64)), "C04.B2 shift keeps every separator, in order");
	if has_child {
		let cf = if with_left { f } else { f + 1 };
		let c: usize = kani::any();
		kani::assume(c <= n);
		let dstc = if c < cf { c } else { c + 1 };
		assert!(child_at(&node, dstc) == Some(100 + c as u64), "C04.B2 shift keeps every child, in order");
		assert!(child_at(&node, cf).is_none(), "C04.B2 hole in the children at the insertion point");
	}
	std::mem::forget(node);
}

/// C04.B2b: remove_from(f) closes the hole at f (separator f must have been taken out): separators f+1.. move left.
fn remove_case(n: usize, f: usize, has_child: bool, with_left: bool) {
	let (mut node, ks, lens) = any_sorted_node(n, has_child);
	let _ = node.remove_separator(f);
	let cf = if with_left { f } else { f + 1 };
	if has_child { let _ = node.remove_child(cf); }
	node.remove_from(f, has_child, with_left);
	let j: usize = kani::any();
	kani::assume(j < n && j != f);
	let dst = if j < f { j } else { j - 1 };
	assert!(key_at(&node, dst) == Some((ks[j][0], lens[j], 1 + j as u64)), "C04.B2 remove keeps every other separator, in order");
	assert!(node.number_separator() == n - 1, "C04.B2 exactly one separator fewer");
	if has_child {
		let c: usize = kani::any();
		kani::assume(c <= n && c != cf);
		let dstc = if c < cf { c } else { c - 1 };
		assert!(child_at(&node, dstc) == Some(100 + c as u64), "C04.B2 remove keeps every other child, in order");
		assert!(child_at(&node, n).is_none(), "C04.B2 last child slot emptied");
	}
	std::mem::forget(node);
}

macro_rules! c04_b2 {
	($name:ident, $f:ident, $n:expr, $hc:expr, $wl:expr) => {
		#[kani::proof]
		#[kani::unwind(12)]
		fn $name() {
			let f: usize = kani::any();
			kani::assume(f < $n);
			let mut c = 0;
			while c < $n { if c == f { $f($n, c, $hc, $wl); } c += 1; }
		}
	};
}
c04_b2!(c04_b2_shift_from_leaf_n7, shift_case, 7, false, false);
c04_b2!(c04_b2_shift_from_inner_n7_right, shift_case, 7, true, false);
c04_b2!(c04_b2_shift_from_inner_n7_left, shift_case, 7, true, true);
c04_b2!(c04_b2_shift_from_inner_n4_left, shift_case, 4, true, true);
c04_b2!(c04_b2_remove_from_leaf_n8, remove_case, 8, false, false);
c04_b2!(c04_b2_remove_from_inner_n8_right, remove_case, 8, true, false);
c04_b2!(c04_b2_remove_from_inner_n8_left, remove_case, 8, true, true);
c04_b2!(c04_b2_remove_from_inner_n5_left, remove_case, 5, true, true);

/// C04.B2c: split(at) of a full node: left keeps separators [0, at), right gets [at, 8) in order; children likewise.
fn split_case(at: usize, has_child: bool) {
	let (mut node, ks, lens) = any_sorted_node(8, has_child);
	let (right, _ix) = node.split(at, false, None, None, has_child);
	let j: usize = kani::any();
	kani::assume(j < 8);
	if j < at {
		assert!(key_at(&node, j) == Some((ks[j][0], lens[j], 1 + j as u64)), "C04.B2 split: left half keeps its separators");
	} else {
		assert!(key_at(&node, j).is_none(), "C04.B2 split: moved separators leave the left node");
		assert!(key_at(&right, j - at) == Some((ks[j][0], lens[j], 1 + j as u64)), "C04.B2 split: right half receives them in order");
	}
	assert!(node.number_separator() == at && right.number_separator() == 8 - at, "C04.B2 split: no separator lost or duplicated");
	if has_child {
		let c: usize = kani::any();
		kani::assume(c <= 8);
		if c < at { assert!(child_at(&node, c) == Some(100 + c as u64), "C04.B2 split: left children stay"); }
		else { assert!(child_at(&right, c - at) == Some(100 + c as u64) && child_at(&node, c).is_none(), "C04.B2 split: right children move in order"); }
	}
	assert!(right.changed && node.changed, "C04.B2 split: both nodes marked changed");
	std::mem::forget(node); std::mem::forget(right);
}

#[kani::proof]
#[kani::unwind(12)]
fn c04_b2_split_leaf() {
	let at: usize = kani::any();
	kani::assume(at >= 1 && at <= 7);
	let mut c = 1;
	while c <= 7 { if c == at { split_case(c, false); } c += 1; }
}
#[kani::proof]
#[kani::unwind(12)]
fn c04_b2_split_inner() {
	let at: usize = kani::any();
	kani::assume(at >= 3 && at <= 5);
	let mut c = 3;
	while c <= 5 { if c == at { split_case(c, true); } c += 1; }
}

/// Must-fail twin for the node family.
#[kani::proof]
#[kani::unwind(12)]
fn c04_twin_must_fail() {
	let (node, _ks, _lens) = any_sorted_node(3, false);
	let key: [u8; 1] = kani::any();
	let (at, _i) = node.position(&key).unwrap();
	assert!(!at, "TWIN a key is never found (must fail)");
	std::mem::forget(node);
}

// =====================================================================================
// C04.R: Node::rebalance on a parent with three children held in the harness (fetch_child / write_node_plan /
// write_plan_remove_node by contract): whichever of borrow-from-left, borrow-from-right or merge is taken, the in-order
// sequence of (key, value address) pairs and the left-to-right sequence of grandchildren are exactly what they were,
// the under-full child is repaired, and a merged-away node is released exactly once.
// =====================================================================================
pub static mut RB_KEYS: [[u8; 8]; 3] = [[0; 8]; 3];
pub static mut RB_N: [usize; 3] = [0; 3];
pub static mut RB_INNER: bool = false;
pub static mut RB_WROTE: [bool; 3] = [false; 3];
pub static mut RB_OUT: [std::mem::MaybeUninit<Node>; 3] = [std::mem::MaybeUninit::uninit(), std::mem::MaybeUninit::uninit(), std::mem::MaybeUninit::uninit()];
pub static mut RB_REMOVED: [bool; 3] = [false; 3];
pub static mut RB_REMOVALS: usize = 0;

fn rb_child(c: usize) -> Node {
	let mut node = Node { separators: Default::default(), children: Default::default(), changed: false };
	unsafe {
		let mut j = 0;
		while j < 8 { if j < RB_N[c] { node.separators[j] = sep(vec![RB_KEYS[c][j]], (10 * c + j + 1) as u64); } j += 1; }
		if RB_INNER {
			let mut j = 0;
			while j <= 8 { if j <= RB_N[c] { node.children[j] = Child { moved: false, entry_index: Some(Address::from_u64((1000 + 10 * c + j) as u64)) }; } j += 1; }
		}
	}
	node
}

pub fn stub_fetch_child<Q: LogQuery>(n: &Node, i: usize, _values: TablesRef, _log: &Q) -> Result<Option<Node>> {
	match n.children[i].entry_index {
		Some(a) => {
			let c = (a.as_u64() - 200) as usize;
			assert!(c < 3, "harness: parent children are 200..=202");
			// a node already rewritten in this call is read back as written (the record overlay would return it)
			if unsafe { RB_WROTE[c] } { Ok(Some(unsafe { RB_OUT[c].assume_init_ref().clone() })) } else { Ok(Some(rb_child(c))) }
		},
		None => Ok(None),
	}
}

pub fn stub_write_node_plan(_t: TablesRef, node: Node, _w: &mut LogWriter, node_id: Option<Address>) -> Result<Option<Address>> {
	let c = (node_id.expect("C04.R rebalance rewrites existing nodes").as_u64() - 200) as usize;
	assert!(c < 3, "harness: only the three children are written");
	unsafe { RB_OUT[c].as_mut_ptr().write(node); RB_WROTE[c] = true; }
	Ok(None)
}

pub fn stub_remove_node(_t: TablesRef, _w: &mut LogWriter, node_index: Address) -> Result<()> {
	let c = (node_index.as_u64() - 200) as usize;
	assert!(c < 3, "harness: only children can be released");
	unsafe { assert!(!RB_REMOVED[c], "C04.R a merged-away node is released once"); RB_REMOVED[c] = true; RB_REMOVALS += 1; }
	Ok(())
}

/// sizes = separators in children 0..3 (the child `at` is the under-full one); parent has two separators.
fn rebalance_case(sizes: [usize; 3], at: usize, inner: bool) {
	let pk: [u8; 2] = kani::any();
	unsafe {
		RB_KEYS = kani::any(); RB_N = sizes; RB_INNER = inner;
		RB_WROTE = [false; 3]; RB_REMOVED = [false; 3]; RB_REMOVALS = 0;
	}
	let mut parent = Node { separators: Default::default(), children: Default::default(), changed: false };
	parent.separators[0] = sep(vec![pk[0]], 91);
	parent.separators[1] = sep(vec![pk[1]], 92);
	let mut c = 0;
	while c < 3 { parent.children[c] = Child { moved: false, entry_index: Some(Address::from_u64(200 + c as u64)) }; c += 1; }
	// expected in-order sequence of (key, value) and of grandchildren
	let mut want: [(u8, u64); 26] = [(0, 0); 26];
	let mut wn = 0;
	let mut wantc: [u64; 27] = [0; 27];
	let mut wcn = 0;
	let mut c = 0;
	while c < 3 {
		let mut j = 0;
		while j < 8 { if j < sizes[c] { want[wn] = (unsafe { RB_KEYS[c][j] }, (10 * c + j + 1) as u64); wn += 1; } j += 1; }
		if inner { let mut j = 0; while j <= 8 { if j <= sizes[c] { wantc[wcn] = (1000 + 10 * c + j) as u64; wcn += 1; } j += 1; } }
		if c < 2 { want[wn] = (pk[c], 91 + c as u64); wn += 1; }
		c += 1;
	}
	let tables: [ValueTable; 0] = [];
	let compression = crate::compress::Compress::new(crate::compress::CompressionType::NoCompression, u32::MAX);
	let values = TablesRef { tables: &tables, compression: &compression, col: 0, preimage: false, ref_counted: false };
	let overlays = crate::log::verif_kani::new_overlays();
	let mut w = LogWriter::new(&overlays, 1);
	let depth = if inner { 2 } else { 1 };
	parent.rebalance(depth, at, values, &mut w).unwrap();
	// read the tree back
	let mut got: [(u8, u64); 26] = [(0, 0); 26];
	let mut gn = 0;
	let mut gotc: [u64; 27] = [0; 27];
	let mut gcn = 0;
	let np = parent.number_separator();
	let mut i = 0;
	while i < 3 {
		if i <= np {
			let a = parent.children[i].entry_index.expect("C04.R parent keeps a child left of / right of each separator").as_u64();
			let c = (a - 200) as usize;
			assert!(!unsafe { RB_REMOVED[c] }, "C04.R the parent never keeps a released node");
			let node = if unsafe { RB_WROTE[c] } { unsafe { RB_OUT[c].assume_init_ref().clone() } } else { rb_child(c) };
			let n = node.number_separator();
			assert!(n >= 4 && n <= 8, "C04.R every child is within [ORDER/2, ORDER] separators after rebalancing");
			let mut j = 0;
			while j < 8 {
				if j < n { let s = node.separators[j].separator.as_ref().unwrap(); got[gn] = (s.key[0], s.value.as_u64()); gn += 1; }
				else { assert!(node.separators[j].separator.is_none(), "C04.R separators stay packed"); }
				j += 1;
			}
			if inner {
				let mut j = 0;
				while j <= 8 {
					if j <= n { gotc[gcn] = node.children[j].entry_index.expect("C04.R inner node has one more child than separators").as_u64(); gcn += 1; }
					else { assert!(node.children[j].entry_index.is_none(), "C04.R children stay packed"); }
					j += 1;
				}
			}
			std::mem::forget(node);
			if i < np { let s = parent.separators[i].separator.as_ref().unwrap(); got[gn] = (s.key[0], s.value.as_u64()); gn += 1; }
		} else {
			assert!(parent.children[i].entry_index.is_none(), "C04.R parent children stay packed");
		}
		i += 1;
	}
	assert!(gn == wn, "C04.R no key is lost or duplicated by rebalancing");
	assert!(gcn == wcn, "C04.R no grandchild is lost or duplicated by rebalancing");
	let j: usize = kani::any();
	kani::assume(j < 26);
	if j < wn { assert!(got[j] == want[j], "C04.R rebalancing keeps the in-order sequence of keys and value addresses"); }
	let k: usize = kani::any();
	kani::assume(k < 27);
	if k < wcn { assert!(gotc[k] == wantc[k], "C04.R rebalancing keeps the left-to-right order of grandchildren"); }
	assert!(unsafe { RB_REMOVALS } == 2 - np, "C04.R a node is released exactly when two children were merged");
	assert!(parent.changed || np == 2, "C04.R a parent that lost a separator is marked changed");
	kani::cover!(unsafe { RB_WROTE[0] || RB_WROTE[1] || RB_WROTE[2] });
	std::mem::forget(parent); std::mem::forget(w); std::mem::forget(overlays);
}

macro_rules! c04_r {
	($name:ident, $sizes:expr, $at:expr, $inner:expr) => {
		crate::verif_env! {
			#[kani::proof]
			#[kani::unwind(12)]
			#[kani::stub(crate::btree::node::Node::fetch_child, stub_fetch_child)]
			#[kani::stub(crate::btree::BTreeTable::write_node_plan, stub_write_node_plan)]
			#[kani::stub(crate::btree::BTreeTable::write_plan_remove_node, stub_remove_node)]
			fn $name() { rebalance_case($sizes, $at, $inner) }
		}
	};
}
c04_r!(c04_r_rebalance_borrow_left_inner, [5, 3, 4], 1, true);
c04_r!(c04_r_rebalance_borrow_left_leaf, [6, 3, 4], 1, false);
c04_r!(c04_r_rebalance_borrow_right_inner_first, [3, 5, 4], 0, true);
c04_r!(c04_r_rebalance_borrow_right_inner_mid, [4, 3, 6], 1, true);
c04_r!(c04_r_rebalance_borrow_right_leaf, [3, 5, 4], 0, false);
c04_r!(c04_r_rebalance_merge_mid_inner, [4, 3, 4], 1, true);
c04_r!(c04_r_rebalance_merge_last_inner, [4, 4, 3], 2, true);
c04_r!(c04_r_rebalance_merge_first_leaf, [3, 4, 4], 0, false);
