//! Harnesses for src/btree/node.rs: C04.B1 (position), C04.B2 (shift / remove / split on arbitrary sorted nodes).
#![allow(dead_code, unused_imports, static_mut_refs)]
use super::*;

fn sep(k: Vec<u8>, a: u64) -> Separator {
	Separator { modified: false, separator: Some(SeparatorInner { key: k, value: Address::from_u64(a) }) }
}

/// Arbitrary sorted node with n one- or two-byte keys (strictly increasing byte strings), children i -> address 100+i.
fn any_sorted_node(n: usize, has_child: bool) -> (Node, [[u8; 2]; 8], [usize; 8]) {
	let ks: [[u8; 2]; 8] = kani::any();
	let two: [bool; 8] = kani::any();
	let mut lens = [1usize; 8];
	let mut node = Node { separators: Default::default(), children: Default::default(), changed: false };
	let mut i = 0;
	while i < 8 {
		if i < n {
			lens[i] = if two[i] { 2 } else { 1 };
			if i > 0 {
				// strictly increasing as byte strings
				let a = &ks[i - 1][..lens[i - 1]];
				let b = &ks[i][..lens[i]];
				kani::assume(a < b);
			}
			node.separators[i] = sep(ks[i][..lens[i]].to_vec(), 1 + i as u64);
		}
		i += 1;
	}
	if has_child {
		let mut c = 0;
		while c <= 8 { if c <= n { node.children[c] = Child { moved: false, entry_index: Some(Address::from_u64(100 + c as u64)) }; } c += 1; }
	}
	(node, ks, lens)
}

fn key_at(node: &Node, i: usize) -> Option<(u8, usize, u64)> {
	node.separators[i].separator.as_ref().map(|s| (s.key[0], s.key.len(), s.value.as_u64()))
}
fn child_at(node: &Node, i: usize) -> Option<u64> { node.children[i].entry_index.map(|a| a.as_u64()) }

/// C04.B1: position(key) = (true, i) iff separator i equals key; else i = number of separators smaller than key.
#[kani::proof]
#[kani::unwind(12)]
fn c04_b1_position() {
	let n: usize = kani::any();
	kani::assume(n <= 8);
	let mut c = 0;
	while c <= 8 {
		if c == n {
			let (node, ks, lens) = any_sorted_node(c, false);
			let key: [u8; 2] = kani::any();
			let kl: usize = kani::any();
			kani::assume(kl >= 1 && kl <= 2);
			let (at, i) = node.position(&key[..kl]).unwrap();
			assert!(i <= c, "C04.B1 position within the node");
			if at {
				assert!(i < c && ks[i][..lens[i]] == key[..kl], "C04.B1 exact hit is the equal separator");
			} else {
				if i < c { assert!(key[..kl] < ks[i][..lens[i]], "C04.B1 next separator is larger"); }
				if i > 0 { assert!(ks[i - 1][..lens[i - 1]] < key[..kl], "C04.B1 previous separator is smaller"); }
			}
			assert!(node.number_separator() == c, "C04.B1 separator count");
			std::mem::forget(node);
		}
		c += 1;
	}
}

/// C04.B2a: shift_from(f) opens a hole at f and moves separators f.. (and children) one to the right, order kept.
fn shift_case(n: usize, f: usize, has_child: bool, with_left: bool) {
	let (mut node, ks, lens) = any_sorted_node(n, has_child);
	node.shift_from(f, has_child, with_left);
	assert!(node.separators[f].separator.is_none(), "C04.B2 hole at the insertion point");
	assert!(node.changed, "C04.B2 node marked changed");
	let j: usize = kani::any();
	kani::assume(j < n);
	let dst = if j < f { j } else { j + 1 };
	assert!(key_at(&node, dst) == Some((ks[j][0], lens[j], 1 + j as u64)), "C04.B2 shift keeps every separator, in order");
	if has_child {
		let cf = if with_left { f } else { f + 1 };
		let c: usize = kani::any();
		kani::assume(c <= n);
		let dstc = if c < cf { c } else { c + 1 };
		assert!(child_at(&node, dstc) == Some(100 + c as u64), "C04.B2 shift keeps every child, in order");
		assert!(child_at(&node, cf).is_none(), "C04.B2 hole in the children at the insertion point");
	}
	std::mem::forget(node);
}

/// C04.B2b: remove_from(f) closes the hole at f (separator f must have been taken out): separators f+1.. move left.
fn remove_case(n: usize, f: usize, has_child: bool, with_left: bool) {
	let (mut node, ks, lens) = any_sorted_node(n, has_child);
	let _ = node.remove_separator(f);
	let cf = if with_left { f } else { f + 1 };
	if has_child { let _ = node.remove_child(cf); }
	node.remove_from(f, has_child, with_left);
	let j: usize = kani::any();
	kani::assume(j < n && j != f);
	let dst = if j < f { j } else { j - 1 };
	assert!(key_at(&node, dst) == Some((ks[j][0], lens[j], 1 + j as u64)), "C04.B2 remove keeps every other separator, in order");
	assert!(node.number_separator() == n - 1, "C04.B2 exactly one separator fewer");
	if has_child {
		let c: usize = kani::any();
		kani::assume(c <= n && c != cf);
		let dstc = if c < cf { c } else { c - 1 };
		assert!(child_at(&node, dstc) == Some(100 + c as u64), "C04.B2 remove keeps every other child, in order");
		assert!(child_at(&node, n).is_none(), "C04.B2 last child slot emptied");
	}
	std::mem::forget(node);
}

macro_rules! c04_b2 {
	($name:ident, $f:ident, $n:expr, $hc:expr, $wl:expr) => {
		#[kani::proof]
		#[kani::unwind(12)]
		fn $name() {
			let f: usize = kani::any();
			kani::assume(f < $n);
			let mut c = 0;
			while c < $n { if c == f { $f($n, c, $hc, $wl); } c += 1; }
		}
	};
}
c04_b2!(c04_b2_shift_from_leaf_n7, shift_case, 7, false, false);
c04_b2!(c04_b2_shift_from_inner_n7_right, shift_case, 7, true, false);
c04_b2!(c04_b2_shift_from_inner_n7_left, shift_case, 7, true, true);
c04_b2!(c04_b2_shift_from_inner_n4_left, shift_case, 4, true, true);
c04_b2!(c04_b2_remove_from_leaf_n8, remove_case, 8, false, false);
c04_b2!(c04_b2_remove_from_inner_n8_right, remove_case, 8, true, false);
c04_b2!(c04_b2_remove_from_inner_n8_left, remove_case, 8, true, true);
c04_b2!(c04_b2_remove_from_inner_n5_left, remove_case, 5, true, true);

/// C04.B2c: split(at) of a full node: left keeps separators [0, at), right gets [at, 8) in order; children likewise.
fn split_case(at: usize, has_child: bool) {
	let (mut node, ks, lens) = any_sorted_node(8, has_child);
	let (right, _ix) = node.split(at, false, None, None, has_child);
	let j: usize = kani::any();
	kani::assume(j < 8);
	if j < at {
		assert!(key_at(&node, j) == Some((ks[j][0], lens[j], 1 + j as u64)), "C04.B2 split: left half keeps its separators");
	} else {
		assert!(key_at(&node, j).is_none(), "C04.B2 split: moved separators leave the left node");
		assert!(key_at(&right, j - at) == Some((ks[j][0], lens[j], 1 + j as u64)), "C04.B2 split: right half receives them in order");
	}
	assert!(node.number_separator() == at && right.number_separator() == 8 - at, "C04.B2 split: no separator lost or duplicated");
	if has_child {
		let c: usize = kani::any();
		kani::assume(c <= 8);
		if c < at { assert!(child_at(&node, c) == Some(100 + c as u64), "C04.B2 split: left children stay"); }
		else { assert!(child_at(&right, c - at) == Some(100 + c as u64) && child_at(&node, c).is_none(), "C04.B2 split: right children move in order"); }
	}
	assert!(right.changed && node.changed, "C04.B2 split: both nodes marked changed");
	std::mem::forget(node); std::mem::forget(right);
}

#[kani::proof]
#[kani::unwind(12)]
fn c04_b2_split_leaf() {
	let at: usize = kani::any();
	kani::assume(at >= 1 && at <= 7);
	let mut c = 1;
	while c <= 7 { if c == at { split_case(c, false); } c += 1; }
}
#[kani::proof]
#[kani::unwind(12)]
fn c04_b2_split_inner() {
	let at: usize = kani::any();
	kani::assume(at >= 3 && at <= 5);
	let mut c = 3;
	while c <= 5 { if c == at { split_case(c, true); } c += 1; }
}

/// Must-fail twin for the node family.
#[kani::proof]
#[kani::unwind(12)]
fn c04_twin_must_fail() {
	let (node, _ks, _lens) = any_sorted_node(3, false);
	let key: [u8; 1] = kani::any();
	let (at, _i) = node.position(&key).unwrap();
	assert!(!at, "TWIN a key is never found (must fail)");
	std::mem::forget(node);
}
