//! Fixed-capacity association model of the std HashMap/HashSet API subset used by parity-db (verification builds only).
use std::borrow::Borrow;
use std::marker::PhantomData;

pub const CAP: usize = 2;

#[derive(Debug)]
pub struct HashMap<K, V, S = ()> {
	items: [Option<(K, V)>; CAP],
	_s: PhantomData<S>,
}

impl<K: Clone, V: Clone, S> Clone for HashMap<K, V, S> {
	fn clone(&self) -> Self { HashMap { items: self.items.clone(), _s: PhantomData } }
}

impl<K, V, S> Default for HashMap<K, V, S> {
	fn default() -> Self { HashMap { items: [None, None], _s: PhantomData } }
}

pub enum Entry<'a, K, V, S> {
	Occupied(OccupiedEntry<'a, K, V, S>),
	Vacant(VacantEntry<'a, K, V, S>),
}
pub struct OccupiedEntry<'a, K, V, S> { map: &'a mut HashMap<K, V, S>, at: usize }
pub struct VacantEntry<'a, K, V, S> { map: &'a mut HashMap<K, V, S>, key: K }

impl<'a, K: Eq, V, S> OccupiedEntry<'a, K, V, S> {
	pub fn get(&self) -> &V { &self.map.items[self.at].as_ref().unwrap().1 }
	pub fn get_mut(&mut self) -> &mut V { &mut self.map.items[self.at].as_mut().unwrap().1 }
	pub fn remove_entry(self) -> (K, V) { self.map.items[self.at].take().unwrap() }
	pub fn insert(&mut self, v: V) -> V { std::mem::replace(&mut self.map.items[self.at].as_mut().unwrap().1, v) }
}
impl<'a, K: Eq, V, S> VacantEntry<'a, K, V, S> {
	pub fn insert(self, v: V) -> &'a mut V { let at = self.map.free(); self.map.items[at] = Some((self.key, v)); &mut self.map.items[at].as_mut().unwrap().1 }
}
impl<'a, K: Eq, V, S> Entry<'a, K, V, S> {
	pub fn or_insert_with<F: FnOnce() -> V>(self, f: F) -> &'a mut V {
		match self { Entry::Occupied(e) => &mut e.map.items[e.at].as_mut().unwrap().1, Entry::Vacant(e) => e.insert(f()) }
	}
	pub fn or_default(self) -> &'a mut V where V: Default { self.or_insert_with(V::default) }
}

impl<K: Eq, V, S> HashMap<K, V, S> {
	pub fn new() -> Self { Self::default() }
	fn free(&self) -> usize {
		let mut i = 0;
		while i < CAP { if self.items[i].is_none() { return i } i += 1; }
		panic!("verif_map capacity exceeded (harness bound)")
	}
	fn find<Q: ?Sized + Eq>(&self, k: &Q) -> Option<usize> where K: Borrow<Q> {
		let mut i = 0;
		while i < CAP { if let Some((kk, _)) = &self.items[i] { if kk.borrow() == k { return Some(i) } } i += 1; }
		None
	}
	pub fn get<Q: ?Sized + Eq>(&self, k: &Q) -> Option<&V> where K: Borrow<Q> { match self.find(k) { Some(i) => self.items[i].as_ref().map(|p| &p.1), None => None } }
	pub fn get_mut<Q: ?Sized + Eq>(&mut self, k: &Q) -> Option<&mut V> where K: Borrow<Q> { match self.find(k) { Some(i) => self.items[i].as_mut().map(|p| &mut p.1), None => None } }
	pub fn contains_key<Q: ?Sized + Eq>(&self, k: &Q) -> bool where K: Borrow<Q> { self.find(k).is_some() }
	pub fn insert(&mut self, k: K, v: V) -> Option<V> {
		match self.find(&k) { Some(i) => Some(std::mem::replace(&mut self.items[i].as_mut().unwrap().1, v)), None => { let at = self.free(); self.items[at] = Some((k, v)); None } }
	}
	pub fn remove<Q: ?Sized + Eq>(&mut self, k: &Q) -> Option<V> where K: Borrow<Q> { match self.find(k) { Some(i) => self.items[i].take().map(|p| p.1), None => None } }
	pub fn entry(&mut self, k: K) -> Entry<'_, K, V, S> {
		match self.find(&k) { Some(at) => Entry::Occupied(OccupiedEntry { map: self, at }), None => Entry::Vacant(VacantEntry { map: self, key: k }) }
	}
	pub fn len(&self) -> usize { let mut n = 0; let mut i = 0; while i < CAP { if self.items[i].is_some() { n += 1 } i += 1; } n }
	pub fn is_empty(&self) -> bool { self.len() == 0 }
	pub fn clear(&mut self) { let mut i = 0; while i < CAP { self.items[i] = None; i += 1; } }
	pub fn capacity(&self) -> usize { CAP }
	pub fn shrink_to_fit(&mut self) {}
	pub fn iter(&self) -> impl Iterator<Item = (&K, &V)> { self.items.iter().filter_map(|o| o.as_ref().map(|(k, v)| (k, v))) }
	pub fn iter_mut(&mut self) -> impl Iterator<Item = (&K, &mut V)> { self.items.iter_mut().filter_map(|o| o.as_mut().map(|(k, v)| (&*k, v))) }
	pub fn extend<I: IntoIterator<Item = (K, V)>>(&mut self, it: I) { for (k, v) in it { self.insert(k, v); } }
	pub fn values(&self) -> impl Iterator<Item = &V> { self.items.iter().filter_map(|o| o.as_ref().map(|(_, v)| v)) }
	pub fn values_mut(&mut self) -> impl Iterator<Item = &mut V> { self.items.iter_mut().filter_map(|o| o.as_mut().map(|(_, v)| v)) }
	pub fn keys(&self) -> impl Iterator<Item = &K> { self.items.iter().filter_map(|o| o.as_ref().map(|(k, _)| k)) }
	pub fn retain<F: FnMut(&K, &mut V) -> bool>(&mut self, mut f: F) {
		let mut i = 0;
		while i < CAP {
			let keep = match self.items[i].as_mut() { Some((k, v)) => f(&*k, v), None => true };
			if !keep { self.items[i] = None; }
			i += 1;
		}
	}
	pub fn drain(&mut self) -> impl Iterator<Item = (K, V)> + '_ { self.items.iter_mut().filter_map(|o| o.take()) }
	pub fn remove_entry<Q: ?Sized + Eq>(&mut self, k: &Q) -> Option<(K, V)> where K: Borrow<Q> { match self.find(k) { Some(i) => self.items[i].take(), None => None } }
	pub fn get_key_value<Q: ?Sized + Eq>(&self, k: &Q) -> Option<(&K, &V)> where K: Borrow<Q> { match self.find(k) { Some(i) => self.items[i].as_ref().map(|p| (&p.0, &p.1)), None => None } }
	pub fn with_capacity(_n: usize) -> Self { Self::default() }
	pub fn reserve(&mut self, _n: usize) {}
}
impl<K, V, S> IntoIterator for HashMap<K, V, S> {
	type Item = (K, V);
	type IntoIter = std::iter::Flatten<std::array::IntoIter<Option<(K, V)>, CAP>>;
	fn into_iter(self) -> Self::IntoIter { self.items.into_iter().flatten() }
}
impl<'a, K, V, S> IntoIterator for &'a HashMap<K, V, S> {
	type Item = (&'a K, &'a V);
	type IntoIter = std::iter::FilterMap<std::slice::Iter<'a, Option<(K, V)>>, fn(&'a Option<(K, V)>) -> Option<(&'a K, &'a V)>>;
	fn into_iter(self) -> Self::IntoIter { fn f<'b, K, V>(p: &'b Option<(K, V)>) -> Option<(&'b K, &'b V)> { p.as_ref().map(|(k, v)| (k, v)) } self.items.iter().filter_map(f as fn(&'a Option<(K, V)>) -> Option<(&'a K, &'a V)>) }
}
impl<K: Eq, V, S> FromIterator<(K, V)> for HashMap<K, V, S> {
	fn from_iter<I: IntoIterator<Item = (K, V)>>(it: I) -> Self { let mut m = Self::default(); m.extend(it); m }
}

#[derive(Debug, Clone)]
pub struct HashSet<K> { items: Vec<K> }
impl<K> Default for HashSet<K> { fn default() -> Self { HashSet { items: Vec::new() } } }
impl<K: Eq> HashSet<K> {
	pub fn new() -> Self { Self::default() }
	pub fn insert(&mut self, k: K) -> bool { if self.items.iter().any(|x| *x == k) { false } else { self.items.push(k); true } }
	pub fn contains(&self, k: &K) -> bool { self.items.iter().any(|x| x == k) }
	pub fn len(&self) -> usize { self.items.len() }
	pub fn is_empty(&self) -> bool { self.items.is_empty() }
	pub fn clear(&mut self) { self.items.clear() }
	pub fn iter(&self) -> std::slice::Iter<'_, K> { self.items.iter() }
	pub fn remove(&mut self, k: &K) -> bool { match self.items.iter().position(|x| x == k) { Some(i) => { self.items.remove(i); true }, None => false } }
}
impl<'a, K> IntoIterator for &'a HashSet<K> {
	type Item = &'a K;
	type IntoIter = std::slice::Iter<'a, K>;
	fn into_iter(self) -> Self::IntoIter { self.items.iter() }
}
