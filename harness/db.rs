//! Harnesses for src/db.rs (plain build): C04.B4 overlay cursor of btree columns (CommitOverlay::{btree_next, btree_prev}).
#![allow(dead_code, unused_imports, static_mut_refs)]
use super::*;
use crate::btree::LastKey;

/// C04.B4: over an overlay holding up to 3 one-byte keys (symbolic, distinct), for every LastKey variant:
/// Seeked(k) -> smallest key >= k (next) / largest key <= k (prev); At(k) -> strictly greater / smaller;
/// Start / End -> first / last / none.
fn cursor_case(n: usize) {
	let ks: [u8; 3] = kani::any();
	let mut o = CommitOverlay::new();
	let mut i = 0;
	while i < 3 {
		if i < n {
			if i > 0 { kani::assume(ks[i - 1] < ks[i]); }
			o.btree_indexed.insert(vec![ks[i]].into(), (1, Some(vec![i as u8].into())));
		}
		i += 1;
	}
	let k: u8 = kani::any();
	let which: u8 = kani::any();
	kani::assume(which < 4);
	let lk = match which { 0 => LastKey::Start, 1 => LastKey::End, 2 => LastKey::At(vec![k]), _ => LastKey::Seeked(vec![k]) };
	let nx = o.btree_next(&lk).map(|(kk, _)| kk.value()[0]);
	let pv = o.btree_prev(&lk).map(|(kk, _)| kk.value()[0]);
	// specification by exhaustive scan
	let mut want_next: Option<u8> = None;
	let mut want_prev: Option<u8> = None;
	let mut j = 0;
	while j < 3 {
		if j < n {
			let x = ks[j];
			let ok_next = match which { 0 => true, 1 => false, 2 => x > k, _ => x >= k };
			let ok_prev = match which { 0 => false, 1 => true, 2 => x < k, _ => x <= k };
			if ok_next && want_next.is_none() { want_next = Some(x); }
			if ok_prev { want_prev = Some(x); }
		}
		j += 1;
	}
	assert!(nx == want_next, "C04.B4 forward step from the overlay cursor");
	assert!(pv == want_prev, "C04.B4 backward step from the overlay cursor");
	std::mem::forget(o); std::mem::forget(lk);
}

crate::verif_env! {
#[kani::proof]
#[kani::unwind(8)]
fn c04_b4_overlay_cursor() {
	let n: usize = kani::any();
	kani::assume(n <= 3);
	let mut c = 0;
	while c <= 3 { if c == n { cursor_case(c); } c += 1; }
}
}
