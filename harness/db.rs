//! Harnesses for src/db.rs (plain build): C04.B4 overlay cursor of btree columns (CommitOverlay::{btree_next, btree_prev}).
#![allow(dead_code, unused_imports, static_mut_refs)]
use super::*;
use crate::btree::LastKey;
use crate::verif_common as vc;

pub fn opts(n: usize) -> Options {
	Options {
		path: std::path::PathBuf::new(),
		columns: (0..n).map(|_| ColumnOptions::default()).collect(),
		sync_wal: true,
		sync_data: true,
		stats: false,
		salt: None,
		compression_threshold: Default::default(),
		// the native replay builds the crate as a test (cfg(test)), where Options has two more fields
		#[cfg(any(test, feature = "instrumentation"))]
		with_background_thread: false,
		#[cfg(any(test, feature = "instrumentation"))]
		always_flush: false,
	}
}

pub fn commit_overlays(n: usize) -> RwLock<Vec<CommitOverlay>> {
	let mut v = Vec::with_capacity(n);
	let mut c = 0;
	while c < n { v.push(CommitOverlay::new()); c += 1; }
	RwLock::new(v)
}

/// One-byte RcValues whose content is also kept in a typed static Vec (C04.M): `RcValue::value` is stubbed to hand out the
/// static copy. Reading the Vec header through the Arc's heap allocation loses its constant length under CBMC, and every
/// `key.clone()` / comparison in BTreeIterator::iter_inner then runs on a symbolic length (two iterator calls over one tree
/// key and one overlay entry did not finish in 20 minutes). The static copy has the same content by construction.
pub const RCN: usize = 4;
pub static mut RC_PTR: [*const Vec<u8>; RCN] = [std::ptr::null(); RCN];
pub static mut RC_VEC: [Vec<u8>; RCN] = [Vec::new(), Vec::new(), Vec::new(), Vec::new()];
pub static mut RC_N: usize = 0;
pub fn rc_reset() { unsafe { RC_N = 0; } }
pub fn rc_byte(b: u8) -> RcValue {
	let mut v = Vec::with_capacity(1); v.push(b);
	let r = RcValue::from(v);
	let mut w = Vec::with_capacity(1); w.push(b);
	unsafe { assert!(RC_N < RCN); RC_PTR[RC_N] = Arc::as_ptr(&r.0); RC_VEC[RC_N] = w; RC_N += 1; }
	r
}
pub fn stub_rc_value(r: &RcValue) -> &Value {
	unsafe {
		let p = Arc::as_ptr(&r.0);
		let mut j = 0;
		while j < RCN { if j < RC_N && RC_PTR[j] == p { return &RC_VEC[j] } j += 1; }
	}
	&r.0
}

pub fn wc<S: Default>() -> WaitCondvar<S> { WaitCondvar { cv: Condvar::new(), work: Mutex::new(S::default()) } }

pub fn mk_db(o: Options, ncols: usize, bg_err: bool) -> DbInner {
	let mut overlays = Vec::new();
	let mut c = 0;
	while c < ncols { overlays.push(CommitOverlay::new()); c += 1; }
	DbInner {
		columns: Vec::new(),
		options: o,
		shutdown: AtomicBool::new(false),
		log: crate::log::verif_kani::mk_log_plain(true),
		commit_queue: Mutex::new(Default::default()),
		commit_queue_full_cv: Condvar::new(),
		log_worker_wait: wc(),
		commit_worker_wait: Arc::new(wc()),
		commit_overlay: RwLock::new(overlays),
		trees: RwLock::new(Default::default()),
		log_queue_wait: wc(),
		flush_worker_wait: Arc::new(wc()),
		cleanup_worker_wait: wc(),
		cleanup_queue_wait: wc(),
		iteration_lock: Mutex::new(()),
		last_enacted: AtomicU64::new(0),
		next_reindex: AtomicU64::new(1),
		bg_err: Mutex::new(if bg_err { Some(Arc::new(Error::Corruption(String::new()))) } else { None }),
		db_version: crate::options::CURRENT_VERSION,
		lock_file: vc::raw_file(9),
	}
}



/// C04.B4: over an overlay holding up to 3 one-byte keys (symbolic, distinct), for every LastKey variant:
/// Seeked(k) -> smallest key >= k (next) / largest key <= k (prev); At(k) -> strictly greater / smaller;
/// Start / End -> first / last / none.
fn cursor_case(n: usize) {
	let ks: [u8; 3] = kani::any();
	let mut o = CommitOverlay::new();
	let mut i = 0;
	while i < 3 {
		if i < n {
			if i > 0 { kani::assume(ks[i - 1] < ks[i]); }
			o.btree_indexed.insert(vec![ks[i]].into(), (1, Some(vec![i as u8].into())));
		}
		i += 1;
	}
	let k: u8 = kani::any();
	let which: u8 = kani::any();
	kani::assume(which < 4);
	let lk = match which { 0 => LastKey::Start, 1 => LastKey::End, 2 => LastKey::At(vec![k]), _ => LastKey::Seeked(vec![k]) };
	let nx = o.btree_next(&lk).map(|(kk, _)| kk.value()[0]);
	let pv = o.btree_prev(&lk).map(|(kk, _)| kk.value()[0]);
	// specification by exhaustive scan
	let mut want_next: Option<u8> = None;
	let mut want_prev: Option<u8> = None;
	let mut j = 0;
	while j < 3 {
		if j < n {
			let x = ks[j];
			let ok_next = match which { 0 => true, 1 => false, 2 => x > k, _ => x >= k };
			let ok_prev = match which { 0 => false, 1 => true, 2 => x < k, _ => x <= k };
			if ok_next && want_next.is_none() { want_next = Some(x); }
			if ok_prev { want_prev = Some(x); }
		}
		j += 1;
	}
	assert!(nx == want_next, "C04.B4 forward step from the overlay cursor");
	assert!(pv == want_prev, "C04.B4 backward step from the overlay cursor");
	std::mem::forget(o); std::mem::forget(lk);
}

macro_rules! c04_b4 {
	($name:ident, $n:expr) => {
		crate::verif_env! {
			#[kani::proof]
			#[kani::unwind(8)]
			fn $name() { cursor_case($n) }
		}
	};
}
c04_b4!(c04_b4_overlay_cursor_n0, 0);
c04_b4!(c04_b4_overlay_cursor_n1, 1);
c04_b4!(c04_b4_overlay_cursor_n2, 2);
c04_b4!(c04_b4_overlay_cursor_n3, 3);

// =====================================================================================
// C13.P3: DbInner::enact_logs(validation_mode = true) on arbitrary log bytes (database without columns:
// every table action is invalid, so the only acceptable records are Begin, Drop*, End)
// =====================================================================================
crate::verif_env! {
#[kani::proof]
#[kani::unwind(40)]
#[kani::stub(<std::fs::File as std::io::Read>::read, crate::log::verif_kani::stub_file_read)]
#[kani::stub(<std::fs::File as std::io::Seek>::seek, crate::log::verif_kani::stub_file_seek_back)]
#[kani::stub(crc32fast::Hasher::internal_new_specialized, crate::verif_common::no_specialized_crc)]
#[kani::stub(<std::os::fd::OwnedFd as std::ops::Drop>::drop, crate::verif_common::fd_drop_noop)]
fn c13_p3_enact_logs_validation_gate() {
	// one minimal record (tags concrete, record id and stored checksum symbolic); truncation and unknown tags are P1a's job
	let n = crate::log::verif_kani::log_set_minimal_record();
	let db = mk_db(opts(0), 0, false);
	let last: u64 = kani::any();
	kani::assume(last < u64::MAX - 1);
	db.last_enacted.store(last, Ordering::Relaxed);
	crate::log::verif_kani::log_attach_reader(&db.log, 3);
	crate::log::verif_kani::log_queue_replay(&db.log, 4, 77);
	let r = db.enact_logs(true);
	let b = crate::log::verif_kani::log_bytes();
	match &r {
		Ok(true) => {
			let rid = u64::from_le_bytes([b[1], b[2], b[3], b[4], b[5], b[6], b[7], b[8]]);
			assert!(b[0] == 1, "C13.P3 an applied record starts with BeginRecord");
			assert!(rid == last + 1, "C13.P3 only the record numbered last_enacted + 1 is applied");
			assert!(db.last_enacted.load(Ordering::Relaxed) == rid, "C13.P3 last_enacted advances to the applied record");
			assert!(n >= 14, "C13.P3 an applied record is complete");

		},
		Ok(false) => {
			assert!(db.last_enacted.load(Ordering::Relaxed) == last, "C13.P3 a rejected record leaves last_enacted unchanged");
			let rid = u64::from_le_bytes([b[1], b[2], b[3], b[4], b[5], b[6], b[7], b[8]]);
			assert!(rid != last + 1, "C13.P3 a complete, checksum-valid record with the expected number is applied");
			assert!(crate::log::verif_kani::log_replay_len(&db.log) == 0, "C13.P3 an out-of-sequence record discards all remaining logs");
		},
		Err(_) => {
			assert!(db.last_enacted.load(Ordering::Relaxed) == last, "C13.P3 an error leaves last_enacted unchanged");
		},
	}
	kani::cover!(matches!(r, Ok(true)));
	kani::cover!(matches!(r, Ok(false)));
	std::mem::forget(r);
	std::mem::forget(db);
}
}


/// C13.P3g: the same gate over *arbitrary* bytes (16 bytes, any truncation) with the checksum uninterpreted: whatever the
/// bytes are, a record is applied only if it is complete, carries the stored checksum the reader computed, and is numbered
/// last_enacted + 1; a record out of sequence or structurally wrong empties the replay queue; nothing else moves last_enacted.
fn p3g_case(n: usize, t0: u8, t9: u8) {
	// action tags concrete per harness (0xff = leave symbolic): with symbolic tags every next() forks seven ways and the
	// validation loop unwinds on a symbolic read position (did not leave symbolic execution in 10 min)
	crate::log::verif_kani::log_set_len(n);
	if t0 != 0xff { crate::log::verif_kani::log_poke(0, t0); }
	if t9 != 0xff { crate::log::verif_kani::log_poke(9, t9); }
	unsafe { crate::verif_common::CRC_VAL = kani::any(); }
	let db = mk_db(opts(0), 0, false);
	let last: u64 = kani::any();
	kani::assume(last < u64::MAX - 1);
	db.last_enacted.store(last, Ordering::Relaxed);
	crate::log::verif_kani::log_attach_reader(&db.log, 3);
	crate::log::verif_kani::log_queue_replay(&db.log, 4, 77);
	let r = db.enact_logs(true);
	let b = crate::log::verif_kani::log_bytes();
	let rid = u64::from_le_bytes([b[1], b[2], b[3], b[4], b[5], b[6], b[7], b[8]]);
	let stored = u32::from_le_bytes([b[10], b[11], b[12], b[13]]);
	let crc = unsafe { crate::verif_common::CRC_VAL };
	let now = db.last_enacted.load(Ordering::Relaxed);
	// without columns the only valid record within 16 bytes is Begin(id) End(checksum)
	let minimal_valid = n >= 14 && b[0] == 1 && b[9] == 4 && stored == crc;
	match &r {
		Ok(true) => {
			assert!(b[0] == 1 && n >= 14, "C13.P3 an applied record is complete and starts with BeginRecord");
			assert!(rid == last + 1, "C13.P3 only the record numbered last_enacted + 1 is applied");
			assert!(b[9] == 4 && stored == crc, "C13.P3 an applied record passed the checksum and every action validated");
			assert!(now == rid, "C13.P3 last_enacted advances to the applied record");
		},
		_ => {
			assert!(now == last, "C13.P3 a rejected record leaves last_enacted unchanged");
			assert!(!(minimal_valid && rid == last + 1), "C13.P3 a complete, checksum-valid record with the expected number is applied");
		},
	}
	if n >= 9 && b[0] == 1 && rid != last + 1 {
		assert!(matches!(r, Ok(false)), "C13.P3 a record out of sequence is refused without error");
		assert!(crate::log::verif_kani::log_replay_len(&db.log) == 0, "C13.P3 an out-of-sequence record discards all remaining logs");
	}
	if n >= 1 && b[0] != 1 && b[0] >= 2 && b[0] <= 7 {
		assert!(crate::log::verif_kani::log_replay_len(&db.log) == 0, "C13.P3 a log that does not start with BeginRecord discards all remaining logs");
	}
	// witnesses (one program point each; which region is reachable depends on the record shape of the harness)
	let full = n >= 14 && t0 == 1 && t9 == 4;
	kani::cover!(if full { matches!(r, Ok(true)) } else { !matches!(r, Ok(true)) });
	kani::cover!(if full { matches!(r, Ok(false)) && minimal_valid } else { true });
	kani::cover!(if full { stored != crc && rid == last + 1 } else { true });
	std::mem::forget(r);
	std::mem::forget(db);
}

macro_rules! c13_p3g {
	($name:ident, $n:expr, $t0:expr, $t9:expr) => {
		crate::verif_env! {
			#[kani::proof]
			#[kani::unwind(20)]
			#[kani::stub(<std::fs::File as std::io::Read>::read, crate::log::verif_kani::stub_file_read)]
			#[kani::stub(<std::fs::File as std::io::Seek>::seek, crate::log::verif_kani::stub_file_seek_back)]
			#[kani::stub(crc32fast::Hasher::internal_new_specialized, crate::verif_common::no_specialized_crc)]
			#[kani::stub(crc32fast::Hasher::update, crate::verif_common::crc_update_noop)]
			#[kani::stub(crc32fast::Hasher::finalize, crate::verif_common::crc_finalize_uninterpreted)]
			#[kani::stub(<std::os::fd::OwnedFd as std::ops::Drop>::drop, crate::verif_common::fd_drop_noop)]
			fn $name() { p3g_case($n, $t0, $t9) }
		}
	};
}
c13_p3g!(c13_p3g_gate_begin_end, 14, 1, 4);
c13_p3g!(c13_p3g_gate_begin_begin, 14, 1, 1);
c13_p3g!(c13_p3g_gate_begin_insert_value, 16, 1, 3);
c13_p3g!(c13_p3g_gate_begin_insert_index, 16, 1, 2);
c13_p3g!(c13_p3g_gate_begin_drop_table, 16, 1, 5);
c13_p3g!(c13_p3g_gate_begin_unknown_tag, 14, 1, 0x55);
c13_p3g!(c13_p3g_gate_begin_only, 9, 1, 0xff);
c13_p3g!(c13_p3g_gate_begin_torn, 5, 1, 0xff);
c13_p3g!(c13_p3g_gate_begin_end_torn, 13, 1, 4);
c13_p3g!(c13_p3g_gate_starts_with_end, 14, 4, 0xff);
c13_p3g!(c13_p3g_gate_starts_with_insert, 14, 3, 0xff);
c13_p3g!(c13_p3g_gate_empty_file, 0, 0xff, 0xff);


// =====================================================================================
// C12.O3b: DbInner::clean_logs — every truncated log file was waiting for cleanup BEFORE the table flush began and
// every table of every column was flushed before the first truncation; a log that finishes enacting while the
// flush is in progress (environment nondeterminism) is never truncated by this round.
// =====================================================================================
fn clean_logs_db_case(nq: usize, race: bool, sync_data: bool) {
	let vl = crate::log::verif_kani::fev_reset;
	vl();
	let mut o = opts(1);
	// concrete per harness: with a symbolic flag the number of logs to clean is symbolic and the VecDeque drain / sort of
	// Log::clean_logs runs on symbolic lengths (30 min without leaving symbolic execution)
	o.sync_data = sync_data;
	let mut db = mk_db(o, 1, false);
	db.columns.push(crate::column::verif_kani::mini_plain_column(false));
	if nq >= 1 { crate::log::verif_kani::log_push_cleanup(&db.log, 1, 11); }
	if nq >= 2 { crate::log::verif_kani::log_push_cleanup(&db.log, 2, 12); }
	if race { crate::log::verif_kani::log_push_cleanup(&db.log, 3, 30); }
	unsafe { crate::log::verif_kani::RACE_ON = race; crate::log::verif_kani::NDL_CALLS = 0; }
	crate::log::verif_kani::set_log_ptr(&db.log);
	let r = db.clean_logs();
	crate::log::verif_kani::clear_log_ptr();
	let n = unsafe { crate::log::verif_kani::FEV_N };
	let mut flushed = [false; 3];
	let mut i = 0;
	let mut truncated = 0;
	while i < crate::log::verif_kani::FE_MAX {
		if i < n {
			let (k, fd) = unsafe { crate::log::verif_kani::FEV[i] };
			if k == 8 { assert!(truncated == 0, "C12.O3 no table flush after a truncation started"); flushed[fd as usize] = true; }
			if k == 3 {
				truncated += 1;
				assert!(fd == 11 || fd == 12, "C12.O3 only logs that waited for cleanup before the flush are truncated");
				assert!(flushed[0] && flushed[1] && flushed[2], "C12.O3 every table was flushed before a log is truncated");
			}
		}
		i += 1;
	}
	if r.is_ok() {
		if sync_data { assert!(truncated == nq, "C12.O3 all logs that waited for cleanup are cleaned"); }
		else { assert!(truncated == 0, "C12.O3 without sync_data up to KEEP_LOGS logs are kept"); }
		assert!(crate::log::verif_kani::log_cleanup_has(&db.log, 3) == race, "C12.O3 a log that became dirty during the flush waits for the next round");
	}
	kani::cover!(if sync_data { truncated == nq && nq > 0 } else { truncated == 0 && r.is_ok() });
	std::mem::forget(r);
	std::mem::forget(db);
}

macro_rules! c12_o3b {
	($name:ident, $nq:expr, $race:expr, $sd:expr) => {
		crate::verif_tbl! {
			#[kani::proof]
			#[kani::unwind(26)]
			#[kani::stub(<std::fs::File as std::io::Seek>::seek, crate::log::verif_kani::stub_file_seek)]
			#[kani::stub(std::fs::File::set_len, crate::log::verif_kani::stub_set_len)]
			#[kani::stub(std::fs::File::sync_all, crate::log::verif_kani::stub_sync_all)]
			#[kani::stub(crate::log::Log::num_dirty_logs, crate::log::verif_kani::stub_num_dirty_logs)]
			#[kani::stub(<std::os::fd::OwnedFd as std::ops::Drop>::drop, crate::verif_common::fd_drop_noop)]
			fn $name() { clean_logs_db_case($nq, $race, $sd) }
		}
	};
}
c12_o3b!(c12_o3b_db_clean_logs_q1, 1, false, true);
c12_o3b!(c12_o3b_db_clean_logs_q2_race, 2, true, true);
c12_o3b!(c12_o3b_db_clean_logs_q1_race, 1, true, true);
c12_o3b!(c12_o3b_db_clean_logs_q2_nosync, 2, false, false);
