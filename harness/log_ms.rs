//! mapsub-build harnesses for src/log.rs: C01.K3 (log-overlay retirement in Log::end_read),
//! C10.M1 (per-page modified-entry masks accumulate in LogWriter::{insert_index, insert_ref_count}).
#![allow(dead_code, unused_imports, static_mut_refs)]
use super::*;
use crate::verif_common as vc;

/// C01.K3: Log::end_read(cleared, record) drops a log-overlay entry only if its tag equals the finishing
/// record id; an entry rewritten by a later record survives; entries of slots the record did not touch are
/// untouched; next_record_id never decreases.
crate::verif_env! {
#[kani::proof]
#[kani::unwind(40)]
fn c01_k3_end_read_retires_only_own_entries() {
	let log = Log {
		// same shape as LogOverlays::with_columns(1) but only as many overlays as the table ids used below need
		overlays: RwLock::new(LogOverlays {
			index: (0..1).map(|_| IndexLogOverlay::default()).collect(),
			value: (0..2).map(|_| ValueLogOverlay::default()).collect(),
			ref_count: (0..1).map(|_| RefCountLogOverlay::default()).collect(),
			last_record_ids: vec![0],
		}),
		appending: RwLock::new(None),
		reading: RwLock::new(None),
		read_queue: RwLock::default(),
		next_record_id: AtomicU64::new(kani::any()),
		dirty: AtomicBool::new(true),
		log_pool: RwLock::default(),
		cleanup_queue: RwLock::default(),
		replay_queue: RwLock::default(),
		path: std::path::PathBuf::new(),
		next_log_id: AtomicU32::new(0),
		sync: true,
	};
	let next0 = log.next_record_id.load(Ordering::Relaxed);
	kani::assume(next0 < u64::MAX - 2);
	// table ids whose overlay slots are 1, 0, 0 (the overlay vectors are indexed by TableId::log_index; index sizes
	// below 16 do not exist but only the slot number matters here, and 38 page-bearing maps needed 40 GB)
	let vt = ValueTableId::new(0, 1);
	let it = IndexTableId::new(0, 0);
	let rt = RefCountTableId::new(0, 0);
	let (ra, rb, rc, rd): (u64, u64, u64, u64) = (kani::any(), kani::any(), kani::any(), kani::any());
	let (a, b): (u8, u8) = (kani::any(), kani::any());
	{
		let mut o = log.overlays.write();
		o.value[vt.log_index()].map.insert(5, (ra, vec![a]));
		o.value[vt.log_index()].map.insert(6, (rb, vec![b]));
		o.index[it.log_index()].map.insert(9, (rc, 1, IndexChunk([0u8; 512])));
		o.ref_count[rt.log_index()].map.insert(2, (rd, 1, RefCountChunk([0u8; 512])));
	}
	let rec: u64 = kani::any();
	kani::assume(rec < u64::MAX - 2);
	let cleared = Cleared { index: vec![(it, 9)], values: vec![(vt, 5)], ref_count: vec![(rt, 2)] };
	log.end_read(cleared, rec);
	let o = log.overlays.read();
	let v5 = o.value[vt.log_index()].map.get(&5).map(|(id, d)| (*id, d[0]));
	let v6 = o.value[vt.log_index()].map.get(&6).map(|(id, d)| (*id, d[0]));
	if ra == rec { assert!(v5.is_none(), "C01.K3 entry written by the finished record is retired"); }
	else { assert!(v5 == Some((ra, a)), "C01.K3 entry rewritten by a later record survives"); }
	assert!(v6 == Some((rb, b)), "C01.K3 slots the record did not touch are untouched");
	assert!(o.index[it.log_index()].map.get(&9).is_some() == (rc != rec), "C01.K3 index page retired only by its own record");
	assert!(o.ref_count[rt.log_index()].map.get(&2).is_some() == (rd != rec), "C01.K3 ref-count page retired only by its own record");
	let next1 = log.next_record_id.load(Ordering::Relaxed);
	assert!(next1 >= next0 && next1 > rec, "C01.K3 next record id moves past the enacted record and never decreases");
	kani::cover!(ra == rec);
	kani::cover!(ra != rec && rb == rec);
	std::mem::forget(o);
	std::mem::forget(log);
}
}

/// C10.M1 / C09.M1: two modifications of the same page within one record accumulate their modified-entry bits
/// (both entries reach the table file when the record is enacted); the page content is the latest.
crate::verif_env! {
#[kani::proof]
#[kani::unwind(10)]
fn c10_m1_ref_count_masks_accumulate() {
	let overlays = RwLock::new(LogOverlays::with_columns(0));
	let mut w = LogWriter::new(&overlays, 7);
	let rt = RefCountTableId::new(0, 16);
	let (s1, s2): (u8, u8) = (kani::any(), kani::any());
	kani::assume(s1 < 32 && s2 < 32);
	let p1: u64 = kani::any();
	let same: bool = kani::any();
	let p2 = if same { p1 } else { p1 ^ 1 };
	let (m1, m2): (u8, u8) = (kani::any(), kani::any());
	let mut c1 = RefCountChunk([0u8; 512]); c1.0[3] = m1;
	let mut c2 = RefCountChunk([0u8; 512]); c2.0[3] = m2;
	w.insert_ref_count(rt, p1, s1, c1);
	w.insert_ref_count(rt, p2, s2, c2);
	let got1 = w.log.local_ref_count.get(&rt).and_then(|o| o.map.get(&p1)).map(|(id, mask, d)| (*id, *mask, d.0[3]));
	let got2 = w.log.local_ref_count.get(&rt).and_then(|o| o.map.get(&p2)).map(|(id, mask, d)| (*id, *mask, d.0[3]));
	if same {
		assert!(got2 == Some((7, (1u64 << s1) | (1u64 << s2), m2)), "C10.M1 ref-count page: both modified entries stay marked, latest content");
	} else {
		assert!(got1 == Some((7, 1u64 << s1, m1)) && got2 == Some((7, 1u64 << s2, m2)), "C10.M1 distinct pages are logged separately");
	}
	let seen = LogQuery::ref_count(&w, rt, p2, |c| c.0[3]);
	assert!(seen == Some(m2), "C10.M1 the record sees its own latest ref-count page");
	kani::cover!(same && s1 != s2);
	kani::cover!(!same);
	std::mem::forget(w);
	std::mem::forget(overlays);
}
}

crate::verif_env! {
#[kani::proof]
#[kani::unwind(10)]
fn c09_m1_index_masks_accumulate() {
	let overlays = RwLock::new(LogOverlays::with_columns(0));
	let mut w = LogWriter::new(&overlays, 7);
	let it = IndexTableId::new(0, 16);
	let (i1, i2): (u8, u8) = (kani::any(), kani::any());
	kani::assume(i1 < 64 && i2 < 64);
	let p1: u64 = kani::any();
	let same: bool = kani::any();
	let p2 = if same { p1 } else { p1 ^ 1 };
	let (m1, m2): (u8, u8) = (kani::any(), kani::any());
	let mut d1 = IndexChunk([0u8; 512]); d1.0[5] = m1;
	let mut d2 = IndexChunk([0u8; 512]); d2.0[5] = m2;
	w.insert_index(it, p1, i1, d1);
	w.insert_index(it, p2, i2, d2);
	let g1 = w.log.local_index.get(&it).and_then(|o| o.map.get(&p1)).map(|(id, mask, d)| (*id, *mask, d.0[5]));
	let g2 = w.log.local_index.get(&it).and_then(|o| o.map.get(&p2)).map(|(id, mask, d)| (*id, *mask, d.0[5]));
	if same { assert!(g2 == Some((7, (1u64 << i1) | (1u64 << i2), m2)), "C09.M1 index page: both modified entries stay marked, latest content"); }
	else { assert!(g1 == Some((7, 1u64 << i1, m1)) && g2 == Some((7, 1u64 << i2, m2)), "C09.M1 distinct index pages are logged separately"); }
	let seen = LogQuery::with_index(&w, it, p2, |c| c.0[5]);
	assert!(seen == Some(m2), "C09.M1 the record sees its own latest index page");
	kani::cover!(same && i1 != i2);
	kani::cover!(!same);
	std::mem::forget(w);
	std::mem::forget(overlays);
}
}
