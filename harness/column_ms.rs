//! mapsub-build harnesses for src/column.rs: C10.N2 (tree packing through claim_tree_values, incl. the 255/256
//! children boundary), C10.N3 (node reference-count steps), C08.A3 (a rejected tree claims no storage).
#![allow(dead_code, unused_imports, static_mut_refs)]
use super::*;
use crate::file::verif_kani as vf;
use crate::log::verif_kani as vl;
use crate::table::verif_kani as vt;
use crate::verif_common as vc;

/// Miniature multitree HashColumn: 3 value tables {32, 64, multipart 64}, a ref-count table without file.
pub fn mini_mt(append_only: bool, stack0: Vec<u64>, filled0: u64, last_removed0: u64) -> HashColumn {
	let t0 = vt::mk_mt(ValueTableId::new(0, 0), 32, false, 16, stack0);
	vt::set_filled(&t0, filled0);
	vt::set_last_removed(&t0, last_removed0);
	let value = vec![t0, vt::mk_mt(ValueTableId::new(0, 1), 64, false, 8, Vec::new()), vt::mk_mt(ValueTableId::new(0, 2), 64, true, 8, Vec::new())];
	HashColumn {
		col: 0,
		tables: RwLock::new(Tables { index: crate::index::verif_kani::table(16), value, ref_count: Some(crate::ref_count::verif_kani::mk(16)) }),
		reindex: RwLock::new(Reindex { queue: VecDeque::new(), progress: AtomicU64::new(0) }),
		ref_count_cache: Some(RwLock::new(Default::default())),
		path: PathBuf::new(),
		preimage: false,
		uniform_keys: true,
		collect_stats: false,
		ref_counted: false,
		append_only,
		salt: [0u8; 32],
		stats: crate::stats::verif_kani::tiny(),
		compression: Compress::new(crate::compress::CompressionType::NoCompression, u32::MAX),
		db_version: crate::options::CURRENT_VERSION,
	}
}

fn le64(b: &[u8], o: usize) -> u64 { u64::from_le_bytes([b[o], b[o + 1], b[o + 2], b[o + 3], b[o + 4], b[o + 5], b[o + 6], b[o + 7]]) }

/// C10.N2: a root with `c` children (each New leaf with 0..=2 data bytes, or Existing address; mix symbolic) and
/// `dl` data bytes packs to data ++ child addresses ++ [c]; Existing addresses are stored verbatim; New children
/// get pairwise distinct claimed slots of the tier that fits them, each with a NewValue holding its own packing;
/// Existing children get an IncrementReference unless the column is append-only.
fn claim_case(c: usize, dl: usize, is_new: [bool; 3]) {
	let append_only: bool = kani::any();
	// tier 0 pre-state: 2 free slots on the stack (3 on top = last_removed), filled = 5
	let col = mini_mt(append_only, vec![2, 3], 5, 3);
	let data: [u8; 4] = kani::any();
	let ex: [u64; 3] = kani::any();
	let cd: [u8; 3] = kani::any();
	let mut children = Vec::new();
	let mut i = 0;
	let mut n_new = 0;
	while i < c {
		if is_new[i] { children.push(NodeRef::New(NewNode { data: vec![cd[i]], children: Vec::new() })); n_new += 1; }
		else { children.push(NodeRef::Existing(ex[i])); }
		i += 1;
	}
	let node = NewNode { data: data[..dl].to_vec(), children };
	let op: Operation<Value, Value> = Operation::InsertTree(vec![9u8], node);
	let (packed, changes) = col.claim_tree_values(&op).unwrap();
	assert!(packed.len() == dl + 8 * c + 1, "C10.N2 packed size");
	assert!(packed[packed.len() - 1] as usize == c, "C10.N2 child count byte");
	let (d, ch) = unpack_node_data(packed.clone()).unwrap();
	assert!(d.len() == dl && ch.len() == c, "C10.N2 root unpacks to the supplied shape");
	if dl > 0 {
		let j: usize = kani::any();
		kani::assume(j < dl);
		assert!(d[j] == data[j], "C10.N2 root data read back");
	}
	// children
	let mut i = 0;
	let mut seen_new = 0;
	let expected_slots = [3u64, 2u64, 5u64]; // stack pops 3, 2, then extends at filled = 5
	while i < c {
		{
			if is_new[i] {
				let a = Address::from_u64(ch[i]);
				assert!(a.size_tier() == 0, "C10.N2 new leaf goes to the smallest tier that fits");
				assert!(a.offset() == expected_slots[seen_new], "C10.N2 new children get distinct claimed slots (free list first, then the fill mark)");
				seen_new += 1;
				// its NewValue is present with the leaf's own packing [data, 0]
				let mut found = false;
				let mut k = 0;
				while k < changes.len() {
					if let NodeChange::NewValue(addr, v) = &changes[k] {
						if *addr == ch[i] { found = v.value().len() == 2 && v.value()[0] == cd[i] && v.value()[1] == 0; }
					}
					k += 1;
				}
				assert!(found, "C10.N2 every new child is written at its claimed address with its own packing");
			} else {
				assert!(ch[i] == ex[i], "C10.N2 existing child address stored verbatim");
				let mut inc = false;
				let mut k = 0;
				while k < changes.len() {
					if let NodeChange::IncrementReference(addr) = &changes[k] { if *addr == ex[i] { inc = true; } }
					k += 1;
				}
				assert!(inc == !append_only, "C10.N2 existing child is referenced once more unless the column is append-only");
			}
		}
		i += 1;
	}
	// storage accounting of the claim
	let tables = col.tables.read();
	let t0 = &tables.value[0];
	let from_stack = if n_new < 2 { n_new } else { 2 };
	assert!(vt::filled_of(t0) == 5 + (n_new - from_stack) as u64, "C10.N2 fill mark advances only when the free list is exhausted");
	assert!(vt::free_stack_of(t0).len() == 2 - from_stack, "C10.N2 claimed slots leave the free stack");
	assert!(n_new == 0 || vt::dirty_of(t0), "C10.N2 claiming marks the table header dirty");
	std::mem::forget(tables);
	std::mem::forget(packed); std::mem::forget(changes); std::mem::forget(d); std::mem::forget(ch);
	std::mem::forget(op);
	std::mem::forget(col);
}

/// The New/Existing pattern of the children is concrete per harness (a symbolic enum variant makes CBMC unroll the
/// prepare_node / prepare_children recursion on garbage child vectors); everything else is symbolic.
/// unwind 4 bounds the recursion CBMC still explores on child vectors it cannot see through (heap-stored lengths);
/// it is sufficient for the real loops of these shapes (<= 2 children, 3 tables, map capacity 2).
macro_rules! c10_n2 {
	($name:ident, $c:expr, $dl:expr, $pat:expr) => {
		crate::verif_env! {
			#[kani::proof]
			#[kani::unwind(4)]
			fn $name() { claim_case($c, $dl, $pat) }
		}
	};
}
c10_n2!(c10_n2_claim_tree_c0, 0, 2, [false, false, false]);
c10_n2!(c10_n2_claim_tree_c1_new, 1, 1, [true, false, false]);
c10_n2!(c10_n2_claim_tree_c1_existing, 1, 1, [false, false, false]);
c10_n2!(c10_n2_claim_tree_c2_new_new, 2, 2, [true, true, false]);
c10_n2!(c10_n2_claim_tree_c2_new_existing, 2, 0, [true, false, false]);
c10_n2!(c10_n2_claim_tree_c2_existing_new, 2, 2, [false, true, false]);
c10_n2!(c10_n2_claim_tree_c2_existing_existing, 2, 1, [false, false, false]);

/// C10.N2 boundary / C08.A3: 255 children are representable, 256 are refused with an error and the refused
/// insertion claims no storage (fill marks, free stacks, dirty flags of every tier unchanged).
fn wide_case(n: usize, new_at: Option<usize>) {
	let col = mini_mt(false, vec![2, 3], 5, 3);
	let mut children = Vec::with_capacity(n);
	let mut i = 0;
	while i < n {
		if Some(i) == new_at { children.push(NodeRef::New(NewNode { data: vec![7u8], children: Vec::new() })); }
		else { children.push(NodeRef::Existing(0x100 + i as u64)); }
		i += 1;
	}
	let op: Operation<Value, Value> = Operation::InsertTree(vec![9u8], NewNode { data: vec![1u8, 2u8], children });
	let r = col.claim_tree_values(&op);
	let tables = col.tables.read();
	if n <= 255 {
		let (packed, _changes) = r.unwrap();
		assert!(packed.len() == 2 + 8 * n + 1 && packed[packed.len() - 1] as usize == n, "C10.N2 255 children are packed with count 255");
		let ch = unpack_node_children(&packed).unwrap();
		assert!(ch.len() == n, "C10.N2 255 children read back");
		let j: usize = kani::any();
		kani::assume(j < n && Some(j) != new_at);
		assert!(ch[j] == 0x100 + j as u64, "C10.N2 child order kept");
		std::mem::forget(ch); std::mem::forget(packed); std::mem::forget(_changes);
	} else {
		assert!(matches!(r, Err(Error::InvalidInput(_))), "C10.N2 a node that cannot be represented is rejected");
		let mut t = 0;
		while t < 3 {
			assert!(vt::filled_of(&tables.value[t]) == if t == 0 { 5 } else { 1 }, "C08.A3 rejected tree: no slot consumed");
			assert!(!vt::dirty_of(&tables.value[t]), "C08.A3 rejected tree: no table header touched");
			t += 1;
		}
		assert!(vt::free_stack_of(&tables.value[0]).len() == 2 && vt::last_removed_of(&tables.value[0]) == 3, "C08.A3 rejected tree: free list untouched");
		std::mem::forget(r);
	}
	std::mem::forget(tables);
	std::mem::forget(op);
	std::mem::forget(col);
}

crate::verif_env! {
#[kani::proof]
#[kani::unwind(260)]
fn c10_n2_claim_tree_256_children_rejected() { wide_case(256, Some(0)) }
}

/// Nested: a New child that itself has 256 children is rejected before anything is claimed.
crate::verif_env! {
#[kani::proof]
#[kani::unwind(260)]
fn c10_n2_claim_tree_nested_256_rejected() {
	let col = mini_mt(false, vec![2, 3], 5, 3);
	let mut inner = Vec::with_capacity(256);
	let mut i = 0;
	while i < 256 { inner.push(NodeRef::Existing(0x100 + i as u64)); i += 1; }
	let children = vec![NodeRef::New(NewNode { data: vec![5u8], children: Vec::new() }), NodeRef::New(NewNode { data: vec![6u8], children: inner })];
	let op: Operation<Value, Value> = Operation::InsertTree(vec![9u8], NewNode { data: vec![1u8], children });
	let r = col.claim_tree_values(&op);
	assert!(matches!(r, Err(Error::InvalidInput(_))), "C10.N2 a nested node that cannot be represented is rejected");
	let tables = col.tables.read();
	assert!(vt::filled_of(&tables.value[0]) == 5 && vt::free_stack_of(&tables.value[0]).len() == 2 && !vt::dirty_of(&tables.value[0]), "C08.A3 rejected tree: no storage consumed");
	std::mem::forget(tables); std::mem::forget(r); std::mem::forget(op); std::mem::forget(col);
}
}

// =====================================================================================
// C10.N3: node reference-count steps (absent entry = count 1)
// =====================================================================================
/// inc on a node without entry stores 2; inc again stores 3; dec stores 2; dec removes the entry (count 1 is implicit);
/// a further dec frees the node slot and reports remains = false. Cache and table agree after every step.
crate::verif_tbl! {
#[kani::proof]
#[kani::unwind(66)]
fn c10_n3_ref_count_steps() {
	let col = mini_mt(false, Vec::new(), 4, 0);
	let overlays = vl::new_overlays();
	let mut w = LogWriter::new(&overlays, 1);
	let off: u64 = kani::any();
	kani::assume(off >= 1 && off <= 3);
	let addr = Address::new(off, 0);
	let rc_of = |col: &HashColumn, w: &LogWriter| -> Option<u64> { col.tables.read().get_ref_count().get(addr, w).unwrap().map(|(c, _)| c) };
	let cache_of = |col: &HashColumn| -> Option<u64> { col.ref_count_cache.as_ref().unwrap().read().get(&addr.as_u64()).cloned() };
	assert!(rc_of(&col, &w).is_none() && cache_of(&col).is_none(), "C10.N3 a fresh node has no ref-count entry");
	col.write_address_inc_ref_plan(addr.as_u64(), &mut w).unwrap();
	assert!(rc_of(&col, &w) == Some(2) && cache_of(&col) == Some(2), "C10.N3 first extra reference stores 2");
	col.write_address_inc_ref_plan(addr.as_u64(), &mut w).unwrap();
	assert!(rc_of(&col, &w) == Some(3) && cache_of(&col) == Some(3), "C10.N3 second extra reference stores 3");
	let (remains, _) = col.write_address_dec_ref_plan(addr.as_u64(), &mut w).unwrap();
	assert!(remains && rc_of(&col, &w) == Some(2) && cache_of(&col) == Some(2), "C10.N3 dereference at 3 stores 2");
	let (remains, _) = col.write_address_dec_ref_plan(addr.as_u64(), &mut w).unwrap();
	assert!(remains && rc_of(&col, &w).is_none() && cache_of(&col).is_none(), "C10.N3 dereference at 2 removes the entry, node stays");
	assert!(unsafe { vl::OV_WRITES } == 0, "C10.N3 node storage untouched while referenced");
	let (remains, _) = col.write_address_dec_ref_plan(addr.as_u64(), &mut w).unwrap();
	assert!(!remains, "C10.N3 last dereference reports the node gone");
	let mut out = [0u8; 10];
	assert!(vl::rec_get(&w, ValueTableId::new(0, 0), off, &mut out) && out[0] == 0xff && out[1] == 0xff, "C10.N3 last dereference frees the node slot");
	{
		let tables = col.tables.read();
		assert!(vt::last_removed_of(&tables.value[0]) == off, "C10.N3 freed node slot joins the free list");
		assert!(vt::free_stack_of(&tables.value[0]).len() == 1, "C10.N3 freed node slot joins the free stack");
	}
	std::mem::forget(w); std::mem::forget(overlays); std::mem::forget(col);
}
}
