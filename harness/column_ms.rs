//! mapsub-build harnesses for src/column.rs: C10.N2 (tree packing through claim_tree_values, incl. the 255/256
//! children boundary), C10.N3 (node reference-count steps), C08.A3 (a rejected tree claims no storage).
#![allow(dead_code, unused_imports, static_mut_refs)]
use super::*;
use crate::file::verif_kani as vf;
use crate::log::verif_kani as vl;
use crate::table::verif_kani as vt;
use crate::verif_common as vc;

/// Miniature multitree HashColumn: 3 value tables {32, 64, multipart 64}, a ref-count table without file.
pub fn mini_mt(append_only: bool, stack0: Vec<u64>, filled0: u64, last_removed0: u64) -> HashColumn {
	let t0 = vt::mk_mt(ValueTableId::new(0, 0), 32, false, 16, stack0);
	vt::set_filled(&t0, filled0);
	vt::set_last_removed(&t0, last_removed0);
	let value = vec![t0, vt::mk_mt(ValueTableId::new(0, 1), 64, false, 8, Vec::new()), vt::mk_mt(ValueTableId::new(0, 2), 64, true, 8, Vec::new())];
	HashColumn {
		col: 0,
		tables: RwLock::new(Tables { index: crate::index::verif_kani::table(16), value, ref_count: Some(crate::ref_count::verif_kani::mk(16)) }),
		reindex: RwLock::new(Reindex { queue: VecDeque::new(), progress: AtomicU64::new(0) }),
		ref_count_cache: Some(RwLock::new(Default::default())),
		path: PathBuf::new(),
		preimage: false,
		uniform_keys: true,
		collect_stats: false,
		ref_counted: false,
		append_only,
		salt: [0u8; 32],
		stats: crate::stats::verif_kani::tiny(),
		compression: Compress::new(crate::compress::CompressionType::NoCompression, u32::MAX),
		db_version: crate::options::CURRENT_VERSION,
	}
}

fn le64(b: &[u8], o: usize) -> u64 { u64::from_le_bytes([b[o], b[o + 1], b[o + 2], b[o + 3], b[o + 4], b[o + 5], b[o + 6], b[o + 7]]) }

/// C10.N2: a root with `c` children (each New leaf with 0..=2 data bytes, or Existing address; mix symbolic) and
/// `dl` data bytes packs to data ++ child addresses ++ [c]; Existing addresses are stored verbatim; New children
/// get pairwise distinct claimed slots of the tier that fits them, each with a NewValue holding its own packing;
/// Existing children get an IncrementReference unless the column is append-only.
fn claim_case(c: usize, dl: usize, is_new: [bool; 3]) {
	let append_only: bool = kani::any();
	// tier 0 pre-state: 2 free slots on the stack (3 on top = last_removed), filled = 5
	let col = mini_mt(append_only, vec![2, 3], 5, 3);
	let data: [u8; 4] = kani::any();
	let ex: [u64; 3] = kani::any();
	let cd: [u8; 3] = kani::any();
	let mut children = Vec::new();
	let mut i = 0;
	let mut n_new = 0;
	while i < c {
		if is_new[i] { children.push(NodeRef::New(NewNode { data: vec![cd[i]], children: Vec::new() })); n_new += 1; }
		else { children.push(NodeRef::Existing(ex[i])); }
		i += 1;
	}
	let node = NewNode { data: data[..dl].to_vec(), children };
	let op: Operation<Value, Value> = Operation::InsertTree(vec![9u8], node);
	let (packed, changes) = col.claim_tree_values(&op).unwrap();
	assert!(packed.len() == dl + 8 * c + 1, "C10.N2 packed size");
	assert!(packed[packed.len() - 1] as usize == c, "C10.N2 child count byte");
	let (d, ch) = unpack_node_data(packed.clone()).unwrap();
	assert!(d.len() == dl && ch.len() == c, "C10.N2 root unpacks to the supplied shape");
	if dl > 0 {
		let j: usize = kani::any();
		kani::assume(j < dl);
		assert!(d[j] == data[j], "C10.N2 root data read back");
	}
	// children
	let mut i = 0;
	let mut seen_new = 0;
	let expected_slots = [3u64, 2u64, 5u64]; // stack pops 3, 2, then extends at filled = 5
	while i < c {
		{
			if is_new[i] {
				let a = Address::from_u64(ch[i]);
				assert!(a.size_tier() == 0, "C10.N2 new leaf goes to the smallest tier that fits");
				assert!(a.offset() == expected_slots[seen_new], "C10.N2 new children get distinct claimed slots (free list first, then the fill mark)");
				seen_new += 1;
				// its NewValue is present with the leaf's own packing [data, 0]
				let mut found = false;
				let mut k = 0;
				while k < changes.len() {
					if let NodeChange::NewValue(addr, v) = &changes[k] {
						if *addr == ch[i] { found = v.value().len() == 2 && v.value()[0] == cd[i] && v.value()[1] == 0; }
					}
					k += 1;
				}
				assert!(found, "C10.N2 every new child is written at its claimed address with its own packing");
			} else {
				assert!(ch[i] == ex[i], "C10.N2 existing child address stored verbatim");
				let mut inc = false;
				let mut k = 0;
				while k < changes.len() {
					if let NodeChange::IncrementReference(addr) = &changes[k] { if *addr == ex[i] { inc = true; } }
					k += 1;
				}
				assert!(inc == !append_only, "C10.N2 existing child is referenced once more unless the column is append-only");
			}
		}
		i += 1;
	}
	// storage accounting of the claim
	let tables = col.tables.read();
	let t0 = &tables.value[0];
	let from_stack = if n_new < 2 { n_new } else { 2 };
	assert!(vt::filled_of(t0) == 5 + (n_new - from_stack) as u64, "C10.N2 fill mark advances only when the free list is exhausted");
	assert!(vt::free_stack_of(t0).len() == 2 - from_stack, "C10.N2 claimed slots leave the free stack");
	assert!(n_new == 0 || vt::dirty_of(t0), "C10.N2 claiming marks the table header dirty");
	std::mem::forget(tables);
	std::mem::forget(packed); std::mem::forget(changes); std::mem::forget(d); std::mem::forget(ch);
	std::mem::forget(op);
	std::mem::forget(col);
}

/// The New/Existing pattern of the children is concrete per harness (a symbolic enum variant makes CBMC unroll the
/// prepare_node / prepare_children recursion on garbage child vectors); everything else is symbolic.
/// unwind 4 bounds the recursion CBMC still explores on child vectors it cannot see through (heap-stored lengths);
/// it is sufficient for the real loops of these shapes (<= 2 children, 3 tables, map capacity 2).
macro_rules! c10_n2 {
	($name:ident, $c:expr, $dl:expr, $pat:expr) => {
		crate::verif_env! {
			#[kani::proof]
			#[kani::unwind(4)]
			fn $name() { claim_case($c, $dl, $pat) }
		}
	};
}
c10_n2!(c10_n2_claim_tree_c0, 0, 2, [false, false, false]);
c10_n2!(c10_n2_claim_tree_c1_new, 1, 1, [true, false, false]);
c10_n2!(c10_n2_claim_tree_c1_existing, 1, 1, [false, false, false]);
c10_n2!(c10_n2_claim_tree_c2_new_new, 2, 2, [true, true, false]);
c10_n2!(c10_n2_claim_tree_c2_new_existing, 2, 0, [true, false, false]);
c10_n2!(c10_n2_claim_tree_c2_existing_new, 2, 2, [false, true, false]);
c10_n2!(c10_n2_claim_tree_c2_existing_existing, 2, 1, [false, false, false]);

/// C10.N2 boundary / C08.A3: 255 children are representable, 256 are refused with an error and the refused
/// insertion claims no storage (fill marks, free stacks, dirty flags of every tier unchanged).
fn wide_case(n: usize, new_at: Option<usize>) {
	let col = mini_mt(false, vec![2, 3], 5, 3);
	let mut children = Vec::with_capacity(n);
	let mut i = 0;
	while i < n {
		if Some(i) == new_at { children.push(NodeRef::New(NewNode { data: vec![7u8], children: Vec::new() })); }
		else { children.push(NodeRef::Existing(0x100 + i as u64)); }
		i += 1;
	}
	let op: Operation<Value, Value> = Operation::InsertTree(vec![9u8], NewNode { data: vec![1u8, 2u8], children });
	let r = col.claim_tree_values(&op);
	let tables = col.tables.read();
	if n <= 255 {
		let (packed, _changes) = r.unwrap();
		assert!(packed.len() == 2 + 8 * n + 1 && packed[packed.len() - 1] as usize == n, "C10.N2 255 children are packed with count 255");
		let ch = unpack_node_children(&packed).unwrap();
		assert!(ch.len() == n, "C10.N2 255 children read back");
		let j: usize = kani::any();
		kani::assume(j < n && Some(j) != new_at);
		assert!(ch[j] == 0x100 + j as u64, "C10.N2 child order kept");
		std::mem::forget(ch); std::mem::forget(packed); std::mem::forget(_changes);
	} else {
		assert!(matches!(r, Err(Error::InvalidInput(_))), "C10.N2 a node that cannot be represented is rejected");
		let mut t = 0;
		while t < 3 {
			assert!(vt::filled_of(&tables.value[t]) == if t == 0 { 5 } else { 1 }, "C08.A3 rejected tree: no slot consumed");
			assert!(!vt::dirty_of(&tables.value[t]), "C08.A3 rejected tree: no table header touched");
			t += 1;
		}
		assert!(vt::free_stack_of(&tables.value[0]).len() == 2 && vt::last_removed_of(&tables.value[0]) == 3, "C08.A3 rejected tree: free list untouched");
		std::mem::forget(r);
	}
	std::mem::forget(tables);
	std::mem::forget(op);
	std::mem::forget(col);
}

crate::verif_env! {
#[kani::proof]
#[kani::unwind(260)]
fn c10_n2_claim_tree_256_children_rejected() { wide_case(256, Some(0)) }
}

/// Root with 256 children that all exist already (no storage to claim: the cheapest witness of "256 is refused").
crate::verif_env! {
#[kani::proof]
#[kani::unwind(260)]
fn c10_n2_root_256_existing_children_rejected() { wide_case(256, None) }
}

/// Nested: a New child that itself has 256 children is rejected before anything is claimed.
crate::verif_env! {
#[kani::proof]
#[kani::unwind(260)]
fn c10_n2_claim_tree_nested_256_rejected() {
	let col = mini_mt(false, vec![2, 3], 5, 3);
	let mut inner = Vec::with_capacity(256);
	let mut i = 0;
	while i < 256 { inner.push(NodeRef::Existing(0x100 + i as u64)); i += 1; }
	let children = vec![NodeRef::New(NewNode { data: vec![5u8], children: Vec::new() }), NodeRef::New(NewNode { data: vec![6u8], children: inner })];
	let op: Operation<Value, Value> = Operation::InsertTree(vec![9u8], NewNode { data: vec![1u8], children });
	let r = col.claim_tree_values(&op);
	assert!(matches!(r, Err(Error::InvalidInput(_))), "C10.N2 a nested node that cannot be represented is rejected");
	let tables = col.tables.read();
	assert!(vt::filled_of(&tables.value[0]) == 5 && vt::free_stack_of(&tables.value[0]).len() == 2 && !vt::dirty_of(&tables.value[0]), "C08.A3 rejected tree: no storage consumed");
	std::mem::forget(tables); std::mem::forget(r); std::mem::forget(op); std::mem::forget(col);
}
}

// =====================================================================================
// C10.N3: node reference-count steps (absent entry = count 1)
// =====================================================================================
/// inc on a node without entry stores 2; inc again stores 3; dec stores 2; dec removes the entry (count 1 is implicit);
/// a further dec frees the node slot and reports remains = false. Cache and table agree after every step.
crate::verif_tbl! {
#[kani::proof]
#[kani::unwind(66)]
fn c10_n3_ref_count_steps() {
	let col = mini_mt(false, Vec::new(), 4, 0);
	let overlays = vl::new_overlays();
	let mut w = LogWriter::new(&overlays, 1);
	let off: u64 = kani::any();
	kani::assume(off >= 1 && off <= 3);
	let addr = Address::new(off, 0);
	let rc_of = |col: &HashColumn, w: &LogWriter| -> Option<u64> { col.tables.read().get_ref_count().get(addr, w).unwrap().map(|(c, _)| c) };
	let cache_of = |col: &HashColumn| -> Option<u64> { col.ref_count_cache.as_ref().unwrap().read().get(&addr.as_u64()).cloned() };
	assert!(rc_of(&col, &w).is_none() && cache_of(&col).is_none(), "C10.N3 a fresh node has no ref-count entry");
	col.write_address_inc_ref_plan(addr.as_u64(), &mut w).unwrap();
	assert!(rc_of(&col, &w) == Some(2) && cache_of(&col) == Some(2), "C10.N3 first extra reference stores 2");
	col.write_address_inc_ref_plan(addr.as_u64(), &mut w).unwrap();
	assert!(rc_of(&col, &w) == Some(3) && cache_of(&col) == Some(3), "C10.N3 second extra reference stores 3");
	let (remains, _) = col.write_address_dec_ref_plan(addr.as_u64(), &mut w).unwrap();
	assert!(remains && rc_of(&col, &w) == Some(2) && cache_of(&col) == Some(2), "C10.N3 dereference at 3 stores 2");
	let (remains, _) = col.write_address_dec_ref_plan(addr.as_u64(), &mut w).unwrap();
	assert!(remains && rc_of(&col, &w).is_none() && cache_of(&col).is_none(), "C10.N3 dereference at 2 removes the entry, node stays");
	assert!(unsafe { vl::OV_WRITES } == 0, "C10.N3 node storage untouched while referenced");
	let (remains, _) = col.write_address_dec_ref_plan(addr.as_u64(), &mut w).unwrap();
	assert!(!remains, "C10.N3 last dereference reports the node gone");
	let mut out = [0u8; 10];
	assert!(vl::rec_get(&w, ValueTableId::new(0, 0), off, &mut out) && out[0] == 0xff && out[1] == 0xff, "C10.N3 last dereference frees the node slot");
	{
		let tables = col.tables.read();
		assert!(vt::last_removed_of(&tables.value[0]) == off, "C10.N3 freed node slot joins the free list");
		assert!(vt::free_stack_of(&tables.value[0]).len() == 1, "C10.N3 freed node slot joins the free stack");
	}
	std::mem::forget(w); std::mem::forget(overlays); std::mem::forget(col);
}
}

// =====================================================================================
// C07.W / C09.W / C14.W: one write_plan step on keys that share an index page and a partial key (mapsub build:
// the record's index page lives in the LogWriter's own map). The operation must act on the entry whose stored key
// tail matches — also when it is not the first candidate — and leave the colliding neighbour alone; removing a
// value also removes its index entry in the same record (no orphan entry), an absent key changes nothing.
// =====================================================================================
fn put_entry(page: &mut crate::index::Chunk, slot: usize, e: u64) {
	let b = e.to_le_bytes();
	let mut k = 0; while k < 8 { page.0[slot * 8 + k] = b[k]; k += 1; }
}
fn key_with_tail(tail: &[u8; 24]) -> Key {
	let mut k = [0u8; 32];
	k[0] = 0x12; k[1] = 0x34; k[2] = 0x56; k[3] = 0x78; k[4] = 0x9a; k[5] = 0xbc; k[6] = 0xde; k[7] = 0xf0;
	let mut i = 0; while i < 24 { k[8 + i] = tail[i]; i += 1; }
	k
}
fn put_value(w: &mut LogWriter, key: &Key, slot: u64, rc: Option<u32>, val: &[u8; 8]) {
	let rcs = if rc.is_some() { 4 } else { 0 };
	let mut v = Vec::with_capacity(40);
	v.push((34 + rcs) as u8); v.push(0u8);
	if let Some(c) = rc { let b = c.to_le_bytes(); let mut i = 0; while i < 4 { v.push(b[i]); i += 1; } }
	let mut i = 0; while i < 26 { v.push(key[6 + i]); i += 1; }
	let mut i = 0; while i < 8 { v.push(val[i]); i += 1; }
	w.insert_value(ValueTableId::new(0, 1), slot, v);
}

/// op: 0 = Dereference, 1 = Reference, 2 = Set (existing key).  target: 0 = first candidate, 1 = second candidate, 2 = absent key.
fn write_plan_case(op: u8, target: u8, ref_counted: bool) {
	let col = {
		let mut c = mini_mt(false, Vec::new(), 1, 0);
		c.ref_counted = ref_counted;
		c.preimage = ref_counted;
		{
			let mut t = c.tables.write();
			t.value[1] = vt::mk(ValueTableId::new(0, 1), 64, false, ref_counted, 8);
			vt::set_filled(&t.value[1], 4);
			t.value[0] = vt::mk(ValueTableId::new(0, 0), 32, false, ref_counted, 8);
			t.value[2] = vt::mk(ValueTableId::new(0, 2), 64, true, ref_counted, 8);
			t.ref_count = None;
		}
		c.ref_count_cache = None;
		c
	};
	let overlays = vl::new_overlays();
	let mut w = LogWriter::new(&overlays, 1);
	let t1: [u8; 24] = kani::any();
	let t2: [u8; 24] = kani::any();
	let t3: [u8; 24] = kani::any();
	kani::assume(t1 != t2 && t3 != t1 && t3 != t2);
	let (k1, k2, k3) = (key_with_tail(&t1), key_with_tail(&t2), key_with_tail(&t3));
	let rc1: u32 = kani::any();
	let rc2: u32 = kani::any();
	kani::assume(rc1 >= 1 && rc1 < u32::MAX - 1 && rc2 >= 1 && rc2 < u32::MAX - 1);
	let (v1, v2): ([u8; 8], [u8; 8]) = (kani::any(), kani::any());
	put_value(&mut w, &k1, 1, if ref_counted { Some(rc1) } else { None }, &v1);
	put_value(&mut w, &k2, 2, if ref_counted { Some(rc2) } else { None }, &v2);
	let kp = TableKey::index_from_partial(&k1);
	let it = crate::index::verif_kani::table(16);
	let mut page = crate::index::Chunk([0u8; 512]);
	put_entry(&mut page, 3, crate::index::verif_kani::entry_for(kp, Address::new(1, 1).as_u64(), 16));
	put_entry(&mut page, 9, crate::index::verif_kani::entry_for(kp, Address::new(2, 1).as_u64(), 16));
	let chunk = crate::index::verif_kani::chunk_index_of(&it, kp);
	w.insert_index(it.id, chunk, 3, page);
	crate::index::verif_kani::mirror_reset();
	crate::index::verif_kani::mirror_page(0, it.id, chunk);
	crate::index::verif_kani::mirror_entry(0, 3, crate::index::verif_kani::entry_for(kp, Address::new(1, 1).as_u64(), 16));
	crate::index::verif_kani::mirror_entry(0, 9, crate::index::verif_kani::entry_for(kp, Address::new(2, 1).as_u64(), 16));
	let writes0 = unsafe { vl::OV_WRITES };
	let key = if target == 0 { k1 } else if target == 1 { k2 } else { k3 };
	let newv: [u8; 8] = kani::any();
	let change: Operation<Key, RcValue> = match op { 0 => Operation::Dereference(key), 1 => Operation::Reference(key), _ => Operation::Set(key, newv.to_vec().into()) };
	let r = col.write_plan(&change, &mut w);
	let outcome_ok = r.is_ok();
	assert!(outcome_ok, "C07.W write_plan succeeds");
	std::mem::forget(r);
	// observe: value slots 1, 2 and the index page
	let mut e1 = [0u8; 64]; let mut e2 = [0u8; 64];
	vl::rec_get(&w, ValueTableId::new(0, 1), 1, &mut e1);
	vl::rec_get(&w, ValueTableId::new(0, 1), 2, &mut e2);
	let pg = LogQuery::with_index(&w, it.id, chunk, |c| (crate::index::verif_kani::entry_at(c, 3), crate::index::verif_kani::entry_at(c, 9), crate::index::verif_kani::entry_at(c, 0))).unwrap();
	let ent1 = crate::index::verif_kani::entry_for(kp, Address::new(1, 1).as_u64(), 16);
	let ent2 = crate::index::verif_kani::entry_for(kp, Address::new(2, 1).as_u64(), 16);
	let hdr = if ref_counted { 6 } else { 2 };
	let rc_of = |e: &[u8; 64]| u32::from_le_bytes([e[2], e[3], e[4], e[5]]);
	let live = |e: &[u8; 64]| !(e[0] == 0xff && e[1] == 0xff);
	if target == 2 {
		assert!(unsafe { vl::OV_WRITES } == writes0 + if op == 2 { 1 } else { 0 } || op == 2, "C07.W operations on an absent key change no stored value");
		assert!(live(&e1) && live(&e2) && pg.0 == ent1 && pg.1 == ent2, "C09.W an absent colliding key leaves both neighbours and their index entries alone");
		if op == 2 { assert!(pg.2 != 0, "C09.W a new colliding key gets its own index entry in the first empty slot"); }
	} else {
		let (mine, other, mine_ent, other_ent, my_rc, other_rc, my_v) = if target == 0 { (&e1, &e2, pg.0, pg.1, rc1, rc2, &v1) } else { (&e2, &e1, pg.1, pg.0, rc2, rc1, &v2) };
		assert!(live(other) && other_ent == if target == 0 { ent2 } else { ent1 }, "C09.W the colliding neighbour and its index entry are untouched");
		if ref_counted { assert!(rc_of(other) == other_rc, "C07.W the neighbour's count is untouched"); }
		match op {
			0 => {
				if !ref_counted || my_rc == 1 {
					assert!(!live(mine), "C07.W value removed when its count reaches zero");
					assert!(mine_ent == 0, "C14.W removing a value removes its index entry in the same record (no orphan entry)");
				} else {
					assert!(live(mine) && rc_of(mine) == my_rc - 1 && mine_ent != 0, "C07.W dereference lowers the count of the addressed key only");
				}
			},
			1 => {
				assert!(live(mine) && mine_ent != 0, "C07.W reference keeps value and index entry");
				if ref_counted { assert!(rc_of(mine) == my_rc + 1, "C07.W reference raises the count of the addressed key only"); }
			},
			_ => {
				assert!(live(mine) && mine_ent != 0, "C07.W set keeps the key readable");
				if ref_counted { assert!(rc_of(mine) == my_rc + 1, "C07.W set on a present counted key raises its count"); }
				else { let i: usize = kani::any(); kani::assume(i < 8); assert!(mine[hdr + 26 + i] == newv[i], "C07.W set replaces the value of the addressed key only"); let _ = my_v; }
			},
		}
	}
	kani::cover!(true);
	std::mem::forget(change);
	std::mem::forget(w); std::mem::forget(overlays); std::mem::forget(col); std::mem::forget(it);
}

macro_rules! c07_w {
	($name:ident, $op:expr, $target:expr, $rc:expr) => {
		crate::verif_tbl! {
			#[kani::proof]
			#[kani::unwind(66)]
			#[kani::stub(crate::index::IndexTable::find_entry, crate::index::verif_kani::find_entry_contract)]
			fn $name() { write_plan_case($op, $target, $rc) }
		}
	};
}
c07_w!(c07_w_deref_second_candidate_rc, 0, 1, true);
c07_w!(c07_w_deref_second_candidate_plain, 0, 1, false);
c07_w!(c07_w_deref_first_candidate_rc, 0, 0, true);
c07_w!(c07_w_reference_second_candidate_rc, 1, 1, true);
c07_w!(c07_w_set_second_candidate_rc, 2, 1, true);
c07_w!(c07_w_set_second_candidate_plain, 2, 1, false);
c07_w!(c07_w_deref_absent_key, 0, 2, true);

// =====================================================================================
// C10.N3c: the same five ref-count steps with the ref-count *page* operations by contract
// (`RefCountTable::{get, write_insert_plan, write_remove_plan}` = one slot of a store model: present/absent, count, slot
// number; replace needs the slot `get` reported; removal needs a present entry) — the page-level code is C10.E1/M1/G3.
// Real code: HashColumn::{write_address_inc_ref_plan, write_address_dec_ref_plan, search_all_ref_count, search_ref_count,
// write_ref_count_plan_existing, write_ref_count_plan_new}, the in-memory count cache, and the release of the node slot
// when the last reference goes (ValueTable::write_remove_plan: real).
// =====================================================================================
pub static mut RS_PRESENT: bool = false;
pub static mut RS_COUNT: u64 = 0;
pub static mut RS_SLOT: usize = 0;
pub static mut RS_ADDR: u64 = 0;
pub static mut RS_INSERTS: usize = 0;
pub static mut RS_REMOVES: usize = 0;
pub fn stub_rc_get<Q: LogQuery>(_t: &RefCountTable, address: Address, _log: &Q) -> Result<Option<(u64, usize)>> {
	unsafe { assert!(address.as_u64() == RS_ADDR, "harness: one node address"); Ok(if RS_PRESENT { Some((RS_COUNT, RS_SLOT)) } else { None }) }
}
pub fn stub_rc_insert(_t: &RefCountTable, address: Address, ref_count: u64, sub_index: Option<usize>, _l: &mut LogWriter) -> Result<PlanOutcome> {
	unsafe {
		assert!(address.as_u64() == RS_ADDR, "harness: one node address");
		match sub_index {
			Some(s) => assert!(RS_PRESENT && s == RS_SLOT, "C10.N3 a count is replaced in the slot that holds it"),
			None => { assert!(!RS_PRESENT, "C10.N3 a second entry for the same node is never inserted"); RS_SLOT = kani::any(); kani::assume(RS_SLOT < 64); },
		}
		assert!(ref_count > 1, "C10.N3 only counts above one are stored (one reference is implicit)");
		RS_PRESENT = true; RS_COUNT = ref_count; RS_INSERTS += 1;
	}
	Ok(PlanOutcome::Written)
}
pub fn stub_rc_remove(_t: &RefCountTable, address: Address, sub_index: usize, _l: &mut LogWriter) -> Result<PlanOutcome> {
	unsafe {
		assert!(address.as_u64() == RS_ADDR && RS_PRESENT && sub_index == RS_SLOT, "C10.N3 the entry is removed from the slot that holds it");
		RS_PRESENT = false; RS_REMOVES += 1;
	}
	Ok(PlanOutcome::Written)
}

crate::verif_tbl! {
#[kani::proof]
#[kani::unwind(66)]
#[kani::stub(crate::ref_count::RefCountTable::get, stub_rc_get)]
#[kani::stub(crate::ref_count::RefCountTable::write_insert_plan, stub_rc_insert)]
#[kani::stub(crate::ref_count::RefCountTable::write_remove_plan, stub_rc_remove)]
fn c10_n3c_ref_count_steps_composed() {
	let col = mini_mt(false, Vec::new(), 4, 0);
	let overlays = vl::new_overlays();
	let mut w = LogWriter::new(&overlays, 1);
	let off: u64 = kani::any();
	kani::assume(off >= 1 && off <= 3);
	let addr = Address::new(off, 0);
	unsafe { RS_PRESENT = false; RS_ADDR = addr.as_u64(); RS_INSERTS = 0; RS_REMOVES = 0; }
	let cache_of = |col: &HashColumn| -> Option<u64> { col.ref_count_cache.as_ref().unwrap().read().get(&addr.as_u64()).cloned() };
	let table_of = || -> Option<u64> { unsafe { if RS_PRESENT { Some(RS_COUNT) } else { None } } };
	col.write_address_inc_ref_plan(addr.as_u64(), &mut w).unwrap();
	assert!(table_of() == Some(2) && cache_of(&col) == Some(2), "C10.N3 first extra reference stores 2");
	col.write_address_inc_ref_plan(addr.as_u64(), &mut w).unwrap();
	assert!(table_of() == Some(3) && cache_of(&col) == Some(3), "C10.N3 second extra reference stores 3");
	let (remains, _) = col.write_address_dec_ref_plan(addr.as_u64(), &mut w).unwrap();
	assert!(remains && table_of() == Some(2) && cache_of(&col) == Some(2), "C10.N3 dereference at 3 stores 2");
	let (remains, _) = col.write_address_dec_ref_plan(addr.as_u64(), &mut w).unwrap();
	assert!(remains && table_of().is_none() && cache_of(&col).is_none(), "C10.N3 dereference at 2 removes the entry, node stays");
	assert!(unsafe { vl::OV_WRITES } == 0, "C10.N3 node storage untouched while referenced");
	let (remains, _) = col.write_address_dec_ref_plan(addr.as_u64(), &mut w).unwrap();
	assert!(!remains, "C10.N3 last dereference reports the node gone");
	let mut out = [0u8; 10];
	assert!(vl::rec_get(&w, ValueTableId::new(0, 0), off, &mut out) && out[0] == 0xff && out[1] == 0xff, "C10.N3 last dereference frees the node slot");
	{
		let tables = col.tables.read();
		assert!(vt::last_removed_of(&tables.value[0]) == off, "C10.N3 freed node slot joins the free list");
	}
	kani::cover!(unsafe { RS_INSERTS } == 3 && unsafe { RS_REMOVES } == 1);
	std::mem::forget(w); std::mem::forget(overlays); std::mem::forget(col);
}
}

// =====================================================================================
// C10.X: children given as existing addresses (HashColumn::claim_children_to_data): each address is packed verbatim, in
// order, little-endian, and — unless the column is append-only — every such child gets one IncrementReference, whatever
// the column's `ref_counted` option says (that option governs root counts; interior counts live in the ref-count table
// of every non-append-only multitree column). Children vector backed by a typed static (10.3, lesson 4).
// =====================================================================================
pub static mut CH_STORE: std::mem::MaybeUninit<[NodeRef; 2]> = std::mem::MaybeUninit::uninit();
crate::verif_env! {
#[kani::proof]
#[kani::unwind(10)]
fn c10_x_existing_children_are_counted() {
	let append_only: bool = kani::any();
	let mut col = mini_mt(append_only, Vec::new(), 4, 0);
	col.ref_counted = kani::any();
	let a: [u64; 2] = kani::any();
	let children: Vec<NodeRef> = unsafe { CH_STORE.as_mut_ptr().write([NodeRef::Existing(a[0]), NodeRef::Existing(a[1])]); Vec::from_raw_parts(CH_STORE.as_mut_ptr() as *mut NodeRef, 2, 2) };
	let tier_addresses: HashMap<usize, Vec<u64>> = Default::default();
	let mut tier_index: HashMap<usize, usize> = Default::default();
	let mut node_values: Vec<NodeChange> = Vec::with_capacity(4);
	let mut data: Vec<u8> = Vec::with_capacity(32);
	{
		let tables = col.tables.read();
		let tref = col.as_ref(&tables.value);
		col.claim_children_to_data(&children, tref, &tier_addresses, &mut tier_index, &mut node_values, &mut data).unwrap();
	}
	assert!(data.len() == 16, "C10.X each child address takes eight bytes");
	let i: usize = kani::any();
	kani::assume(i < 16);
	assert!(data[i] == a[i / 8].to_le_bytes()[i % 8], "C10.X existing child addresses are packed verbatim, in order, little-endian");
	if append_only {
		assert!(node_values.len() == 0, "C10.X append-only columns keep no interior counts");
	} else {
		assert!(node_values.len() == 2, "C10.X every child given as an existing address gets one extra reference");
		assert!(matches!(node_values[0], NodeChange::IncrementReference(x) if x == a[0]) && matches!(node_values[1], NodeChange::IncrementReference(x) if x == a[1]), "C10.X the extra reference goes to the named node");
	}
	kani::cover!(!append_only && !col.ref_counted);
	std::mem::forget(children); std::mem::forget(node_values); std::mem::forget(data); std::mem::forget(col);
}
}
