//! mapsub-build harnesses for src/db.rs (HashMap/HashSet replaced by the fixed-capacity model, DESIGN 3.4):
//! C08.A1/A2 (a rejected transaction leaves the commit overlay and the queue untouched),
//! C01.K2 (commit-overlay layer: last write wins, cleaning an old commit never removes a newer entry).
#![allow(dead_code, unused_imports, static_mut_refs)]
use super::*;
use crate::verif_common as vc;

fn key(b: u8) -> Key { let mut k = [0u8; 32]; k[0] = b; k[9] = b; k }

fn any_op(k: Key, kinds: u8) -> Operation<Key, RcValue> {
	let which: u8 = kani::any();
	kani::assume(which < kinds);
	match which {
		0 => { let v: u8 = kani::any(); Operation::Set(k, vec![v].into()) },
		1 => Operation::Dereference(k),
		2 => Operation::Reference(k),
		3 => Operation::ReferenceTree(k),
		4 => Operation::DereferenceTree(k),
		_ => Operation::InsertTree(k, crate::multitree::NewNode { data: Vec::new(), children: Vec::new() }),
	}
}

/// Observable content of an overlay for one key: (present, has value, first value byte, tagged record id).
fn peek(o: &CommitOverlay, k: &Key) -> (bool, bool, u8, u64) {
	match o.indexed.get(k) {
		None => (false, false, 0, 0),
		Some((id, None)) => (true, false, 0, *id),
		Some((id, Some(v))) => (true, true, v.value()[0], *id),
	}
}
fn peek_bt(o: &CommitOverlay, k: &[u8]) -> (bool, bool, u8, u64) {
	match o.btree_indexed.get(k) {
		None => (false, false, 0, 0),
		Some((id, None)) => (true, false, 0, *id),
		Some((id, Some(v))) => (true, true, v.value()[0], *id),
	}
}

/// C08.A1: validation is exactly "copying cannot fail": for every change set, check_operations() == Ok implies
/// copy_to_overlay() == Ok, and check_operations() == Err implies the overlay is not touched by check_operations.
#[kani::proof]
#[kani::unwind(34)]
#[kani::stub(alloc::fmt::format, crate::verif_common::fmt_stub)]
fn c08_a1_checked_changeset_copies_without_error() {
	let mut o = opts(1);
	o.columns[0].ref_counted = kani::any();
	o.columns[0].multitree = kani::any();
	o.columns[0].append_only = kani::any();
	o.columns[0].preimage = kani::any();
	let mut overlay = CommitOverlay::new();
	let mut cs = IndexedChangeSet::new(0);
	cs.changes.push(any_op(key(1), 6));
	cs.changes.push(any_op(key(2), 6));
	cs.changes.push(any_op(key(1), 6));
	let checked = cs.check_operations(&o);
	let ok = checked.is_ok();
	std::mem::forget(checked);
	assert!(peek(&overlay, &key(1)) == (false, false, 0, 0) && peek(&overlay, &key(2)) == (false, false, 0, 0), "C08.A1 validation has no side effect");
	if ok {
		let mut bytes = 0usize;
		let r = cs.copy_to_overlay(&mut overlay, 7, &mut bytes, &o);
		assert!(r.is_ok(), "C08.A1 a validated change set is published without error");
		std::mem::forget(r);
	}
	kani::cover!(ok);
	kani::cover!(!ok);
	std::mem::forget(overlay); std::mem::forget(cs); std::mem::forget(o);
}

#[kani::proof]
#[kani::unwind(34)]
#[kani::stub(alloc::fmt::format, crate::verif_common::fmt_stub)]
fn c08_a1_checked_btree_changeset_copies_without_error() {
	let mut o = opts(1);
	o.columns[0].ref_counted = kani::any();
	o.columns[0].btree_index = true;
	let mut overlay: BTreeCommitOverlay = Default::default();
	let mut cs = BTreeChangeSet::new(0);
	let k1: RcValue = vec![1u8].into();
	let k2: RcValue = vec![2u8].into();
	let mk = |k: &RcValue| -> Operation<RcKey, RcValue> {
		let which: u8 = kani::any();
		kani::assume(which < 5);
		match which {
			0 => { let v: u8 = kani::any(); Operation::Set(k.clone(), vec![v].into()) },
			1 => Operation::Dereference(k.clone()),
			2 => Operation::Reference(k.clone()),
			3 => Operation::ReferenceTree(k.clone()),
			_ => Operation::DereferenceTree(k.clone()),
		}
	};
	// one operation: std's BTreeMap is expensive for CBMC (two inserts: > 15 minutes)
	cs.changes.push(mk(&k1));
	let checked = cs.check_operations(&o);
	let ok = checked.is_ok();
	std::mem::forget(checked);
	assert!(overlay.is_empty(), "C08.A1 validation has no side effect");
	if ok {
		let mut bytes = 0usize;
		let r = cs.copy_to_overlay(&mut overlay, 7, &mut bytes, &o);
		assert!(r.is_ok(), "C08.A1 a validated btree change set is published without error");
		std::mem::forget(r);
	}
	kani::cover!(ok);
	kani::cover!(!ok);
	std::mem::forget(overlay); std::mem::forget(cs); std::mem::forget(o);
	std::mem::forget(k1); std::mem::forget(k2);
}

use super::verif_kani::{mk_db, opts};

fn op_of(kind: u8, k: Key) -> Operation<Key, RcValue> {
	match kind {
		0 => { let v: u8 = kani::any(); Operation::Set(k, vec![v].into()) },
		1 => Operation::Dereference(k),
		2 => Operation::Reference(k),
		3 => Operation::ReferenceTree(k),
		_ => Operation::DereferenceTree(k),
	}
}

/// C08.A2: DbInner::commit_raw over a transaction that touches two columns (hash column 0, hash or btree column 1),
/// operation kinds enumerated (including invalid ones; concrete per case because the rejected change set is dropped
/// inside commit_raw and a symbolic enum discriminant makes CBMC explore the recursive drop glue of NewNode),
/// values, ref_counted flags and an optional pre-existing background error symbolic:
/// if it returns Err, the commit overlays of ALL columns, the commit queue and its byte counter are exactly as before;
/// if it returns Ok, the transaction is queued once under the next commit id.
fn commit_raw_case(col1_btree: bool, k_a: u8, k_b: u8, k_c: u8) {
	let mut o = opts(2);
	o.columns[0].ref_counted = kani::any();
	o.columns[1].ref_counted = kani::any();
	o.columns[1].btree_index = col1_btree;
	let rc0 = o.columns[0].ref_counted;
	let rc1 = o.columns[1].ref_counted;
	let bg: bool = kani::any();
	let db = mk_db(o, 2, bg);
	// pre-state: key(1) of column 0 already published by an older commit (id 3)
	let pre: u8 = kani::any();
	db.commit_overlay.write()[0].indexed.insert(key(1), (3, Some(vec![pre].into())));
	{ let mut q = db.commit_queue.lock(); q.record_id = 3; q.bytes = 5; }
	let mut commit: CommitChangeSet = Default::default();
	let mut cs0 = IndexedChangeSet::new(0);
	cs0.changes.push(op_of(k_a, key(1)));
	cs0.changes.push(op_of(k_b, key(2)));
	commit.indexed.insert(0, cs0);
	let bk: RcValue = vec![5u8].into();
	if col1_btree {
		let mut cs1 = BTreeChangeSet::new(1);
		cs1.changes.push(match k_c {
			0 => { let v: u8 = kani::any(); Operation::Set(bk.clone(), vec![v].into()) },
			1 => Operation::Dereference(bk.clone()),
			2 => Operation::Reference(bk.clone()),
			_ => Operation::ReferenceTree(bk.clone()),
		});
		commit.btree_indexed.insert(1, cs1);
	} else {
		let mut cs1 = IndexedChangeSet::new(1);
		cs1.changes.push(op_of(k_c, key(3)));
		commit.indexed.insert(1, cs1);
	}
	let r = db.commit_raw(commit);
	let failed = r.is_err();
	std::mem::forget(r);
	let valid = |k: u8, rc: bool| k <= 1 || (k == 2 && rc);
	let all_valid = valid(k_a, rc0) && valid(k_b, rc0) && valid(k_c, rc1);
	assert!(failed == (bg || !all_valid), "C08.A2 a transaction is refused exactly when an operation is invalid for its column or a background error is pending");
	let ov = db.commit_overlay.read();
	let q = db.commit_queue.lock();
	if failed {
		assert!(peek(&ov[0], &key(1)) == (true, true, pre, 3), "C08.A2 rejected transaction: older overlay entry untouched");
		assert!(peek(&ov[0], &key(2)) == (false, false, 0, 0), "C08.A2 rejected transaction: nothing published in the first column");
		assert!(peek(&ov[1], &key(3)) == (false, false, 0, 0), "C08.A2 rejected transaction: nothing published in the second column");
		assert!(peek_bt(&ov[1], &[5u8]) == (false, false, 0, 0), "C08.A2 rejected transaction: nothing published in the btree overlay");
		assert!(q.commits.len() == 0 && q.bytes == 5, "C08.A2 rejected transaction: nothing queued");
	} else {
		assert!(q.commits.len() == 1 && q.commits[0].id == 4, "C08.A2 accepted transaction is queued once with the next id");
		assert!(q.bytes == 5 + q.commits[0].bytes, "C08.A2 queue byte counter grows by the commit size");
		if k_b == 0 { assert!(peek(&ov[0], &key(2)).0 && peek(&ov[0], &key(2)).3 == 4, "C08.A2 accepted Set is published under the new id"); }
	}
	std::mem::forget(q); std::mem::forget(ov);
	std::mem::forget(db);
	std::mem::forget(bk);
}

/// One combination of operation kinds per harness (each additional case multiplies the drop-glue exploration:
/// three cases in one harness produced 109 M clauses and ran out of memory).
macro_rules! c08_a2 {
	($name:ident, $bt:expr, $a:expr, $b:expr, $c:expr) => {
		crate::verif_env! {
			#[kani::proof]
			#[kani::unwind(3)]
			#[kani::stub(<std::os::fd::OwnedFd as std::ops::Drop>::drop, crate::verif_common::fd_drop_noop)]
			fn $name() { commit_raw_case($bt, $a, $b, $c) }
		}
	};
}
// kinds: 0 Set, 1 Dereference, 2 Reference (valid only on a ref-counted column), 3 ReferenceTree (never valid here)
c08_a2!(c08_a2_commit_raw_hh_set_set_reference, false, 0, 0, 2);
c08_a2!(c08_a2_commit_raw_hb_set_set_reference, true, 0, 0, 2);
c08_a2!(c08_a2_commit_raw_hh_set_reference_set, false, 0, 2, 0);
c08_a2!(c08_a2_commit_raw_hh_set_deref_treeop, false, 0, 1, 3);
c08_a2!(c08_a2_commit_raw_hb_deref_set_treeop, true, 1, 0, 3);
c08_a2!(c08_a2_commit_raw_hh_set_set_set, false, 0, 0, 0);

/// Must-fail twin of the C08 family.
#[kani::proof]
#[kani::unwind(34)]
#[kani::stub(alloc::fmt::format, crate::verif_common::fmt_stub)]
fn c08_twin_must_fail() {
	let o = opts(1);
	let cs = { let mut cs = IndexedChangeSet::new(0); cs.changes.push(any_op(key(1), 6)); cs };
	let r = cs.check_operations(&o);
	assert!(r.is_ok(), "TWIN every operation is valid (must fail)");
	std::mem::forget(r); std::mem::forget(cs); std::mem::forget(o);
}

// =====================================================================================
// C01.K2: the commit-overlay layer is a map with last-write-wins and id-guarded retirement
// =====================================================================================
/// Two commits (ids 1, 2), one operation each (Set / Dereference, kind and value symbolic) on keys chosen from two
/// (the four key combinations are enumerated so that key comparisons stay concrete), copied in order; then the commit
/// with symbolic id `c` is retired (clean_overlay). For each key: the overlay shows the last write unless that write
/// belongs to commit `c`, in which case the entry is gone (the value has moved on to the log overlay); an entry tagged
/// with the other id is never removed. get_size = length of the value.
fn overlay_case(k1: u8, k2: u8) {
	let o = opts(1);
	let mut overlay = CommitOverlay::new();
	let mut sets: [IndexedChangeSet; 2] = [IndexedChangeSet::new(0), IndexedChangeSet::new(0)];
	let kk = [k1, k2];
	let mut last: [(u64, bool, u8); 2] = [(0, false, 0), (0, false, 0)];
	let mut c = 0;
	while c < 2 {
		let is_set: bool = kani::any();
		let v: u8 = kani::any();
		let k = key(1 + kk[c]);
		sets[c].changes.push(if is_set { Operation::Set(k, vec![v].into()) } else { Operation::Dereference(k) });
		last[kk[c] as usize] = (c as u64 + 1, is_set, v);
		let mut bytes = 0usize;
		sets[c].copy_to_overlay(&mut overlay, c as u64 + 1, &mut bytes, &o).unwrap();
		c += 1;
	}
	let mut q = 0;
	while q < 2 {
		let k = key(1 + q as u8);
		let got = overlay.get(&k);
		if last[q].0 == 0 { assert!(got.is_none(), "C01.K2 never written key is not in the overlay"); }
		else {
			match got {
				Some(Some(v)) => assert!(last[q].1 && v.value().len() == 1 && v.value()[0] == last[q].2, "C01.K2 overlay returns the most recent write"),
				Some(None) => assert!(!last[q].1, "C01.K2 overlay returns the most recent removal"),
				None => assert!(false, "C01.K2 written key is in the overlay"),
			}
			assert!(overlay.get_size(&k) == Some(if last[q].1 { Some(1) } else { None }), "C01.K2 size equals the value length");
		}
		q += 1;
	}
	let cid: u64 = kani::any();
	kani::assume(cid >= 1 && cid <= 2);
	if cid == 1 { sets[0].clean_overlay(&mut overlay, 1); } else { sets[1].clean_overlay(&mut overlay, 2); }
	let mut q = 0;
	while q < 2 {
		let k = key(1 + q as u8);
		let p = peek(&overlay, &k);
		if last[q].0 == 0 || last[q].0 == cid { assert!(!p.0, "C01.K2 retiring a commit removes exactly its own latest entries"); }
		else { assert!(p == (true, last[q].1, if last[q].1 { last[q].2 } else { 0 }, last[q].0), "C01.K2 retiring an older commit never removes a newer entry"); }
		q += 1;
	}
	kani::cover!(cid == 1);
	std::mem::forget(overlay); std::mem::forget(sets); std::mem::forget(o);
}

#[kani::proof]
#[kani::unwind(34)]
#[kani::stub(alloc::fmt::format, crate::verif_common::fmt_stub)]
fn c01_k2_commit_overlay_last_write_wins() {
	let w: u8 = kani::any();
	kani::assume(w < 3);
	if w == 0 { overlay_case(0, 0); }
	if w == 1 { overlay_case(0, 1); }
	if w == 2 { overlay_case(1, 0); }
}

/// C07.K1: on a reference-counted column a queued Dereference / Reference never hides or changes the value another
/// queued commit published for that key (removals of counted values are deliberately not mirrored in the overlay).
#[kani::proof]
#[kani::unwind(34)]
#[kani::stub(alloc::fmt::format, crate::verif_common::fmt_stub)]
fn c07_k1_counted_dereference_leaves_overlay_alone() {
	let mut o = opts(1);
	o.columns[0].ref_counted = true;
	o.columns[0].preimage = true;
	let mut overlay = CommitOverlay::new();
	let v: u8 = kani::any();
	let mut first = IndexedChangeSet::new(0);
	first.changes.push(Operation::Set(key(1), vec![v].into()));
	let mut bytes = 0usize;
	first.copy_to_overlay(&mut overlay, 1, &mut bytes, &o).unwrap();
	let mut second = IndexedChangeSet::new(0);
	let deref: bool = kani::any();
	second.changes.push(if deref { Operation::Dereference(key(1)) } else { Operation::Reference(key(1)) });
	second.copy_to_overlay(&mut overlay, 2, &mut bytes, &o).unwrap();
	assert!(peek(&overlay, &key(1)) == (true, true, v, 1), "C07.K1 a counted key stays readable from the overlay after a queued dereference/reference");
	second.clean_overlay(&mut overlay, 2);
	assert!(peek(&overlay, &key(1)) == (true, true, v, 1), "C07.K1 retiring the dereferencing commit leaves the older entry");
	kani::cover!(deref);
	std::mem::forget(overlay); std::mem::forget(first); std::mem::forget(second); std::mem::forget(o);
}


// =====================================================================================
// C01.K5 / C07.K2: DbInner::process_commits — hand-over of one queued commit from the commit overlay to the log.
// The planning of the operations (IndexedChangeSet::write_plan), the table headers (Column::complete_plan) and the
// log file write (Log::end_record) are contracts that record when they run; the dequeueing, the byte accounting, the
// order "record written and published to the log overlay BEFORE the commit overlay lets go of it", the retirement by
// *commit id* (not by log record id: the two counters drift apart as soon as the database writes records of its own,
// e.g. reindex batches) and the reindex scheduling are the real code.
// =====================================================================================
pub static mut PC_DB: *const DbInner = std::ptr::null();
pub static mut PC_PLANNED: usize = 0;
pub static mut PC_ENDED: usize = 0;
pub static mut PC_REINDEX: bool = false;
pub static mut PC_BYTES: u64 = 0;
pub static mut PC_OVERLAY_AT_END: (bool, bool, u8, u64) = (false, false, 0, 0);
pub fn stub_cs_write_plan(_cs: &IndexedChangeSet, _db: &Arc<DbInner>, _col: ColId, _column: &Column, _w: &mut crate::log::LogWriter, ops: &mut u64, reindex: &mut bool) -> Result<()> {
	unsafe {
		assert!(PC_ENDED == 0, "C01.K5 operations are planned before the record is closed");
		PC_PLANNED += 1;
		*ops += 1;
		if PC_REINDEX { *reindex = true; }
	}
	Ok(())
}
pub fn stub_complete_plan(_c: &Column, _w: &mut crate::log::LogWriter) -> Result<()> { Ok(()) }
pub fn stub_end_record(_l: &crate::log::Log, change: crate::log::LogChange) -> Result<u64> {
	unsafe {
		PC_ENDED += 1;
		// what a concurrent reader would still find in the commit overlay at the moment the record becomes visible in the log overlay
		PC_OVERLAY_AT_END = peek(&(*PC_DB).commit_overlay.read()[0], &key(1));
		std::mem::forget(change);
		Ok(PC_BYTES)
	}
}

fn process_commits_case(own_is_set: bool) {
	let o = opts(1);
	let mut dbi = mk_db(o, 1, false);
	dbi.columns.push(crate::column::verif_kani::mini_plain_column(false));
	let cid: u64 = kani::any();
	let later: u64 = kani::any();
	let rid: u64 = kani::any();
	kani::assume(cid >= 1 && cid < 1000 && later != cid && later < 1000 && rid >= 1 && rid < 1000);
	crate::log::verif_kani::log_set_next_record_id(&dbi.log, rid);
	let v: u8 = kani::any();
	let v2: u8 = kani::any();
	let nr0: u64 = kani::any();
	dbi.next_reindex.store(nr0, Ordering::Relaxed);
	{
		let mut ov = dbi.commit_overlay.write();
		ov[0].indexed.insert(key(1), (cid, if own_is_set { Some(vec![v].into()) } else { None }));
		// key(2) was written by this commit and again by a later, still queued commit: the overlay entry carries the later id
		ov[0].indexed.insert(key(2), (later, Some(vec![v2].into())));
	}
	let mut commit: CommitChangeSet = Default::default();
	let mut cs = IndexedChangeSet::new(0);
	cs.changes.push(if own_is_set { Operation::Set(key(1), vec![v].into()) } else { Operation::Dereference(key(1)) });
	cs.changes.push(Operation::Set(key(2), vec![0u8].into()));
	commit.indexed.insert(0, cs);
	let cbytes: usize = kani::any();
	kani::assume(cbytes < 1000);
	{
		let mut q = dbi.commit_queue.lock();
		q.record_id = 1000;
		q.bytes = cbytes + 7;
		q.commits.push_back(Commit { id: cid, bytes: cbytes, changeset: commit });
	}
	unsafe { PC_PLANNED = 0; PC_ENDED = 0; PC_REINDEX = kani::any(); PC_BYTES = kani::any(); kani::assume(PC_BYTES < 100000); }
	let db = Arc::new(dbi);
	unsafe { PC_DB = Arc::as_ptr(&db); }
	let r = db.process_commits(&db);
	unsafe { PC_DB = std::ptr::null(); }
	assert!(matches!(r, Ok(true)), "C01.K5 a queued commit is processed");
	unsafe {
		assert!(PC_PLANNED == 1 && PC_ENDED == 1, "C01.K5 one record per commit: planned once, written once");
		assert!(PC_OVERLAY_AT_END == (true, own_is_set, if own_is_set { v } else { 0 }, cid), "C01.K5 the commit overlay still serves the commit's writes when its record is published to the log overlay");
	}
	{
		let ov = db.commit_overlay.read();
		assert!(peek(&ov[0], &key(1)) == (false, false, 0, 0), "C01.K5 once logged, the commit's own overlay entries are retired");
		assert!(peek(&ov[0], &key(2)) == (true, true, v2, later), "C01.K5 an entry overwritten by a later queued commit survives (retirement goes by commit id, not by log record id)");
	}
	{
		let q = db.commit_queue.lock();
		assert!(q.commits.len() == 0 && q.bytes == 7, "C01.K5 the commit leaves the queue and its bytes are released");
	}
	assert!(*db.log_queue_wait.work.lock() == unsafe { PC_BYTES } as i64, "C01.K5 logged bytes are accounted for the flush / throttle logic");
	let nr = db.next_reindex.load(Ordering::Relaxed);
	assert!(nr == if unsafe { PC_REINDEX } { rid } else { nr0 }, "C09.S a full index page met while planning schedules reindexing after this very record");
	assert!(crate::log::verif_kani::log_next_record_id(&db.log) == rid + 1, "C01.K5 one log record number consumed");
	kani::cover!(later == rid);
	kani::cover!(unsafe { PC_REINDEX });
	std::mem::forget(r);
	std::mem::forget(db);
}

macro_rules! c01_k5 {
	($name:ident, $set:expr) => {
		crate::verif_env! {
			#[kani::proof]
			#[kani::unwind(3)]
			#[kani::stub(<std::os::fd::OwnedFd as std::ops::Drop>::drop, crate::verif_common::fd_drop_noop)]
			#[kani::stub(crate::db::IndexedChangeSet::write_plan, stub_cs_write_plan)]
			#[kani::stub(crate::column::Column::complete_plan, stub_complete_plan)]
			#[kani::stub(crate::log::Log::end_record, stub_end_record)]
			fn $name() { process_commits_case($set) }
		}
	};
}
c01_k5!(c01_k5_process_commits_hands_over_set, true);
c01_k5!(c01_k5_process_commits_hands_over_removal, false);

// =====================================================================================
// C08.A4: DbInner::commit_changes on a multitree column — a transaction that is refused by a LATER operation must not
// keep what an EARLIER InsertTree / DereferenceTree of the same transaction already took: node slots claimed from the
// value tables (HashColumn::claim_tree_values by contract: "claims storage", counted) and the queued-dereference counter
// of the tree registry. Real code: the operation loop of commit_changes and its error exits.
// =====================================================================================
pub static mut A4_CLAIMS: usize = 0;
/// The root lookup of a DereferenceTree is not part of the harness's transaction, but the operation kind is not a constant
/// for symbolic execution after the move through `IntoIterator`, so every arm of the match is explored: without this
/// contract ("no such root") the whole read path (index search, value chains) is unrolled — 20 min, 14 GB, no verdict.
pub static mut A4_RAW: usize = 0;
/// commit_raw is decided by C08.A2; here it only must not be reached by a refused transaction
pub fn stub_commit_raw(_db: &DbInner, commit: CommitChangeSet) -> Result<()> { unsafe { A4_RAW += 1; } std::mem::forget(commit); Ok(()) }
pub fn stub_db_get(_db: &DbInner, _col: ColId, _key: &[u8], _external: bool) -> Result<Option<Value>> { Ok(None) }
/// key hashing is not the subject (C01.K1 decides hash_key): one byte of the key is enough to tell the harness keys apart
pub fn stub_hash_key(key: &[u8], _salt: &crate::column::Salt, _uniform: bool, _db_version: u32) -> Key { let mut k = [0u8; 32]; if key.len() > 0 { k[0] = key[0]; k[9] = key[0]; } k }
pub fn stub_claim_tree_values(_c: &crate::column::HashColumn, change: &Operation<Value, Value>) -> Result<(Vec<u8>, Vec<NodeChange>)> {
	assert!(matches!(change, Operation::InsertTree(..)), "harness: only insertions claim");
	unsafe { A4_CLAIMS += 1; }
	let mut root = Vec::with_capacity(2);
	root.push(7u8); root.push(0u8);
	Ok((root, Vec::new()))
}

crate::verif_env! {
#[kani::proof]
#[kani::unwind(3)]
#[kani::stub(crate::column::HashColumn::claim_tree_values, stub_claim_tree_values)]
#[kani::stub(crate::column::hash_key, stub_hash_key)]
#[kani::stub(crate::db::DbInner::get, stub_db_get)]
#[kani::stub(crate::db::DbInner::commit_raw, stub_commit_raw)]
#[kani::stub(<std::os::fd::OwnedFd as std::ops::Drop>::drop, crate::verif_common::fd_drop_noop)]
fn c08_a4_refused_transaction_keeps_no_claim() {
	let mut o = opts(1);
	o.columns[0].multitree = true;
	o.columns[0].append_only = kani::any();
	let mut dbi = mk_db(o, 1, false);
	dbi.columns.push(crate::column::verif_kani::mini_plain_column(false));
	unsafe { A4_CLAIMS = 0; A4_RAW = 0; }
	// second operation: a plain Set, which is not valid on a multitree column. Keys and payloads are empty vectors (no heap
	// objects: with one-byte vectors and a symbolic choice of the second operation the run needed > 20 min / 14 GB for the
	// drop glue of the refused transaction)
	let second: Operation<Vec<u8>, Vec<u8>> = Operation::Set(Vec::new(), Vec::new());
	let first: Operation<Vec<u8>, Vec<u8>> = Operation::InsertTree(Vec::new(), crate::multitree::NewNode { data: Vec::new(), children: Vec::new() });
	let r = dbi.commit_changes([(0u8, first), (0u8, second)]);
	assert!(r.is_err(), "C08.A4r an operation that is not valid for its column refuses the transaction");
	assert!(unsafe { A4_CLAIMS } == 0, "C08.A4 a refused transaction holds no claimed node slot");
	assert!(unsafe { A4_RAW } == 0, "C08.A4q a refused transaction is not handed to commit_raw");
	kani::cover!(r.is_err());
	std::mem::forget(r); std::mem::forget(dbi);
}
}
