"""Registry of harnesses: which harness decides which obligation of which property, in which tier,
with which bound and budget. The Rust sources are in /verif/harness/*.rs."""

MODFILE = {
    "index": "index.rs", "table": "table.rs", "file": "file.rs", "log": "log.rs", "column": "column.rs",
    "db": "db.rs", "stats": "stats.rs", "ref_count": "ref_count.rs", "btree::node": "btree_node.rs",
    "btree": "btree_mod.rs", "btree::iter": "btree_iter.rs", "compress": "compress.rs", "options": "options.rs",
    "migration": "migration.rs",
}

LOCK_STUBS = ["stub: parking_lot::RawRwLock/RawMutex slow paths -> panic (single-threaded harness, a contended lock is unreachable)"]
FMT_STUB = ["stub: alloc::fmt::format -> String::new() (error messages are not part of any property)"]
RS_STUB = ["stub: std::hash::RandomState::new -> fixed seed (getrandom FFI; HashMap semantics are seed independent)"]
ENV = LOCK_STUBS + FMT_STUB + RS_STUB
PSRLQ = ["stub: core::arch::x86_64::_mm_srl_epi64 -> pure model of PSRLQ (validated against the hardware instruction at setup and by native replay)"]
OVERLAY = ["stub: LogWriter::{insert_value, value, value_ref} -> array-backed per-record overlay (last write wins, element-wise copies)"]
TFILE = ["stub: TableFile::{read_at, slice_at, write_at} -> static byte arrays (no mmap)"]
CAPIDX = ["stub: LogWriter::insert_index -> capture (table, page index, slot, page) in statics"]


def harness_file(name):
    mod = name.rsplit("::verif_kani::", 1)[0]
    return MODFILE[mod]


def H(mod, fn, tier, labels, inputs, bounds, timeout=300, mem_gb=4, **kw):
    d = {"name": "%s::verif_kani::%s" % (mod, fn), "tier": tier, "labels": labels, "inputs": inputs, "bounds": bounds,
         "timeout": timeout, "mem_gb": mem_gb}
    d.update(kw)
    return d


PROPS = {}
_H = {}


def prop(pid, **kw):
    PROPS[pid] = kw
    _H[pid] = []


def add(pid, h):
    _H[pid].append(h)


def harnesses(pid):
    return list(_H.get(pid, []))


# ======================================================================================== C20
prop("C20",
     functions=["IndexTable::chunk_index", "IndexTable::recover_key_prefix", "index::Entry::{new, extract_key, partial_key, address, last_address, address_bits}",
                "TableKey::index_from_partial", "table::key::partial_key"],
     bounds="index sizes 16..=48 (symbolic), every 64-bit key prefix / 32-byte key, every address <= last_address(bits)",
     outside="migrate() itself (per-rc re-commit, batching, column selection, in-place overwrite), iter_index_internal's page walk, destination commit pipeline",
     assumptions=["address <= Entry::last_address(bits) (guaranteed by plan_insert_chunk, checked in C09.P1/G2)"])
add("C20", H("index", "c20_m12_c09_g1_recover_prefix", "quick", ["C20.M1", "C20.M2", "C09.G1"],
             "bits:u8 in 16..=48, key prefix:u64, address:u64 <= last_address", "loop-free; all values", 120, 2, unwind=None))
add("C20", H("index", "c20_m3_full_key_reconstruction", "quick", ["C20.M3"],
             "bits:u8 in 16..=48, key:[u8;32], address:u64", "all values; unwind 33 (32-byte copies)", 120, 2, unwind=33))

# ======================================================================================== C19
prop("C19",
     functions=["IndexTable::find_entry (x86_64 dispatcher)", "IndexTable::find_entry_sse2", "IndexTable::find_entry_base", "IndexTable::read_entry",
                "index::Entry::{partial_key, extract_key, address_bits, is_empty}"],
     bounds="the real 64-slot page, all 2^4096 page contents, every key prefix, every start position (start group concrete per harness, offset in group symbolic), "
            "index sizes 16..=40 symbolic (41..=49 in thorough); unwind 65",
     outside="index sizes >= 50 (shift >= 64; no such file can exist); the callers' confirmation of a candidate against the stored key tail (C09/C14); non-x86_64 dispatch",
     assumptions=["PSRLQ model equals the hardware instruction (validated at setup; every counterexample is replayed on the real intrinsic)"])
add("C19", H("index", "c19_l1_scalar_match_implies_fast_match", "quick", ["C19.L1"], "bits:u8 in 16..=49, slot content:u64, key:u64", "loop-free; all values", 120, 2))
_c19_cost = {0: (3000, 14), 1: (2700, 13), 2: (2400, 12), 3: (2100, 11), 4: (1800, 10), 5: (1700, 10), 6: (1500, 9), 7: (1300, 8),
             8: (1100, 7), 9: (900, 7), 10: (800, 6), 11: (700, 6), 12: (600, 5), 13: (500, 5), 14: (400, 4), 15: (300, 4)}
for q in range(16):
    tmo, mem = _c19_cost[q]
    tier = "quick" if q in (12, 14, 15) else "thorough"
    add("C19", H("index", "c19_sse2_q%d" % q, tier, ["C19.A1", "C19.A2", "C19.A3", "C19.A4"],
                 "page:[u64;64], key:u64, offset in group:0..4, bits:u8 in 16..=40; start positions %d..%d" % (4 * q, 4 * q + 3),
                 "unwind 65; start group %d concrete" % q, tmo, mem, unwind=65, stubs=PSRLQ,
                 rotate=("c19_rot" if q in (9, 10, 11, 13) else None)))
for q in (8, 12, 15):
    add("C19", H("index", "c19_sse2_big_q%d" % q, "thorough", ["C19.A1", "C19.A2", "C19.A3", "C19.A4"],
                 "page, key, offset in group; bits:u8 in 41..=49", "unwind 65; start group %d" % q, 1500, 8, unwind=65, stubs=PSRLQ))
for q, tier in ((15, "quick"), (12, "quick"), (8, "thorough"), (4, "thorough"), (0, "thorough")):
    add("C19", H("index", "c19_base_q%d" % q, tier, ["C19.B1", "C19.B2", "C19.A3"],
                 "page, key, offset in group, bits:u8 in 16..=49 (scalar search)", "unwind 65; start group %d" % q, 1500, 8, unwind=65))
for q, tier in ((15, "quick"), (13, "thorough")):
    add("C19", H("index", "c19_dispatch_q%d" % q, tier, ["C19.A1", "C19.A2", "C19.A3"],
                 "page, key, offset in group, bits:u8 in 16..=40 (find_entry as callers use it)", "unwind 65; start group %d" % q, 900, 6, unwind=65, stubs=PSRLQ))
add("C19", H("index", "c19_twin_must_fail", "quick", [], "page, key", "must-fail twin", 300, 4, twin=True, stubs=PSRLQ, unwind=65))

# ======================================================================================== C09
prop("C09",
     functions=["IndexTable::{chunk_index, recover_key_prefix, plan_insert_chunk, plan_remove_chunk, read_entry, write_entry}",
                "index::Entry::{new, extract_key, partial_key, address, last_address}", "index::TableId::{log_index, from_log_index}"],
     bounds="growth arithmetic: index sizes 16..=48, all keys/addresses; page operations: the real 64-slot page with arbitrary content, any key, any address, "
            "any slot, index sizes {16,17,24,40} concrete; unwind 66",
     outside="batch scheduling of reindex (process_reindex/next_reindex), DropTable enactment and file removal, interleaving with commits/restarts/crashes, "
             "collision chains through the value tables at column level (three probes timed out, DESIGN 3.7), pages on disk (mmap FFI)",
     assumptions=["replace (sub_index = Some(i)) is called only on a slot carrying the key's partial key (asserted by the code itself)"])
add("C09", H("index", "c20_m12_c09_g1_recover_prefix", "quick", ["C09.G1"], "bits:u8 in 16..=48, key prefix:u64, address:u64", "loop-free; all values", 120, 2))
add("C09", H("index", "c09_g2_address_overflow_refused", "quick", ["C09.G2"], "bits, address, partial key", "loop-free", 120, 2))
add("C09", H("index", "c09_g3_log_index_roundtrip", "quick", ["C09.G3"], "two (col:u8, bits in 16..48) pairs", "loop-free", 120, 2))
for b, tier in ((16, "quick"), (17, "thorough"), (24, "quick"), (40, "thorough")):
    add("C09", H("index", "c09_p1_insert_new_b%d" % b, tier, ["C09.P1", "C09.P2", "C09.G2"], "page:[u64;64], key:u64, address:u64", "bits=%d; unwind 66" % b, 900, 6,
                 unwind=66, stubs=ENV + CAPIDX, replay="solver-trace-only"))
for b, tier in ((16, "quick"), (24, "thorough"), (40, "quick")):
    add("C09", H("index", "c09_p3_replace_b%d" % b, tier, ["C09.P3", "C09.G2"], "page, key, old/new address, slot:0..64", "bits=%d; unwind 66" % b, 900, 6,
                 unwind=66, stubs=ENV + CAPIDX, replay="solver-trace-only"))
    add("C09", H("index", "c09_p4_remove_b%d" % b, tier, ["C09.P4"], "page, key, slot:0..64", "bits=%d; unwind 66" % b, 900, 6,
                 unwind=66, stubs=ENV + CAPIDX, replay="solver-trace-only"))
