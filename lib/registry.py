"""Registry of harnesses: which harness decides which obligation of which property, in which tier,
with which bound and budget. The Rust sources are in /verif/harness/*.rs."""

MODFILE = {
    "index": "index.rs", "table": "table.rs", "file": "file.rs", "log": "log.rs", "column": "column.rs",
    "db": "db.rs", "stats": "stats.rs", "ref_count": "ref_count.rs", "btree::node": "btree_node.rs",
    "btree": "btree_mod.rs", "btree::iter": "btree_iter.rs", "compress": "compress.rs", "options": "options.rs",
    "migration": "migration.rs",
}

LOCK_STUBS = ["stub: parking_lot::RawRwLock/RawMutex slow paths -> panic (single-threaded harness, a contended lock is unreachable)"]
FMT_STUB = ["stub: alloc::fmt::format -> String::new() (error messages are not part of any property)"]
RS_STUB = ["stub: std::hash::RandomState::new -> fixed seed (getrandom FFI; HashMap semantics are seed independent)"]
ENV = LOCK_STUBS + FMT_STUB + RS_STUB
PSRLQ = ["stub: core::arch::x86_64::_mm_srl_epi64 -> pure model of PSRLQ (validated against the hardware instruction at setup and by native replay)"]
OVERLAY = ["stub: LogWriter::{insert_value, value, value_ref} -> array-backed per-record overlay (last write wins, element-wise copies)"]
TFILE = ["stub: TableFile::{read_at, slice_at, write_at} -> static byte arrays (no mmap)"]
CAPIDX = ["stub: LogWriter::insert_index -> capture (table, page index, slot, page) in statics"]


def harness_file(name):
    if "::verif_kani_ms::" in name:
        mod = name.rsplit("::verif_kani_ms::", 1)[0]
        return {"db": "db_ms.rs", "log": "log_ms.rs", "column": "column_ms.rs"}[mod]
    mod = name.rsplit("::verif_kani::", 1)[0]
    return MODFILE[mod]


def H(mod, fn, tier, labels, inputs, bounds, timeout=300, mem_gb=4, **kw):
    d = {"name": "%s::verif_kani::%s" % (mod, fn), "tier": tier, "labels": labels, "inputs": inputs, "bounds": bounds,
         "timeout": timeout, "mem_gb": mem_gb}
    d.update(kw)
    return d


PROPS = {}
_H = {}


def prop(pid, **kw):
    PROPS[pid] = kw
    _H[pid] = []


def add(pid, h):
    _H[pid].append(h)


def harnesses(pid):
    return list(_H.get(pid, []))


# ======================================================================================== C20
prop("C20",
     functions=["IndexTable::chunk_index", "IndexTable::recover_key_prefix", "index::Entry::{new, extract_key, partial_key, address, last_address, address_bits}",
                "TableKey::index_from_partial", "table::key::partial_key"],
     bounds="index sizes 16..=48 (symbolic), every 64-bit key prefix / 32-byte key, every address <= last_address(bits)",
     outside="migrate() itself (per-rc re-commit, batching, column selection, in-place overwrite), iter_index_internal's page walk, destination commit pipeline",
     assumptions=["address <= Entry::last_address(bits) (guaranteed by plan_insert_chunk, checked in C09.P1/G2)"])
add("C20", H("index", "c20_m12_c09_g1_recover_prefix", "quick", ["C20.M1", "C20.M2", "C09.G1"],
             "bits:u8 in 16..=48, key prefix:u64, address:u64 <= last_address", "loop-free; all values", 120, 2, unwind=None))
add("C20", H("index", "c20_m3_full_key_reconstruction", "quick", ["C20.M3"],
             "bits:u8 in 16..=48, key:[u8;32], address:u64", "all values; unwind 33 (32-byte copies)", 120, 2, unwind=33))

# ======================================================================================== C19
prop("C19",
     functions=["IndexTable::find_entry (x86_64 dispatcher)", "IndexTable::find_entry_sse2", "IndexTable::find_entry_base", "IndexTable::read_entry",
                "index::Entry::{partial_key, extract_key, address_bits, is_empty}"],
     bounds="the real 64-slot page, all 2^4096 page contents, every key prefix, every start position (start group concrete per harness, offset in group symbolic), "
            "index sizes 16..=40 symbolic (41..=49 in thorough); unwind 65",
     outside="index sizes >= 50 (shift >= 64; no such file can exist); the callers' confirmation of a candidate against the stored key tail (C09/C14); non-x86_64 dispatch",
     assumptions=["PSRLQ model equals the hardware instruction (validated at setup; every counterexample is replayed on the real intrinsic)"])
add("C19", H("index", "c19_l1_scalar_match_implies_fast_match", "quick", ["C19.L1"], "bits:u8 in 16..=49, slot content:u64, key:u64", "loop-free; all values", 120, 2))
_c19_cost = {0: (9000, 16), 1: (9000, 15), 2: (8000, 14), 3: (8000, 13), 4: (6000, 12), 5: (6000, 12), 6: (5400, 11), 7: (5400, 10),
             8: (4500, 9), 9: (3600, 9), 10: (3000, 8), 11: (2400, 8), 12: (1800, 7), 13: (1500, 6), 14: (1200, 5), 15: (900, 4)}
for q in range(16):
    tmo, mem = _c19_cost[q]
    tier = "quick" if q in (14, 15) else "thorough"
    add("C19", H("index", "c19_sse2_q%d" % q, tier, ["C19.A1", "C19.A2", "C19.A3", "C19.A4"],
                 "page:[u64;64], key:u64, offset in group:0..4, bits:u8 in 16..=40; start positions %d..%d" % (4 * q, 4 * q + 3),
                 "unwind 65; start group %d concrete" % q, tmo, mem, unwind=65, stubs=PSRLQ))
for q in (8, 12, 15):
    add("C19", H("index", "c19_sse2_big_q%d" % q, "thorough", ["C19.A1", "C19.A2", "C19.A3", "C19.A4"],
                 "page, key, offset in group; bits:u8 in 41..=49", "unwind 65; start group %d" % q, 1500, 8, unwind=65, stubs=PSRLQ))
for q, tier in ((15, "quick"), (12, "quick"), (8, "thorough"), (4, "thorough"), (0, "thorough")):
    add("C19", H("index", "c19_base_q%d" % q, tier, ["C19.B1", "C19.B2", "C19.A3"],
                 "page, key, offset in group, bits:u8 in 16..=49 (scalar search)", "unwind 65; start group %d" % q, 1500, 8, unwind=65))
for q, tier in ((15, "quick"), (13, "thorough")):
    add("C19", H("index", "c19_dispatch_q%d" % q, tier, ["C19.A1", "C19.A2", "C19.A3"],
                 "page, key, offset in group, bits:u8 in 16..=40 (find_entry as callers use it)", "unwind 65; start group %d" % q, 900, 6, unwind=65, stubs=PSRLQ))
add("C19", H("index", "c19_twin_must_fail", "quick", [], "page, key", "must-fail twin", 300, 4, twin=True, stubs=PSRLQ, unwind=65))

# ======================================================================================== C09
prop("C09",
     functions=["IndexTable::{chunk_index, recover_key_prefix, plan_insert_chunk, plan_remove_chunk, read_entry, write_entry}",
                "index::Entry::{new, extract_key, partial_key, address, last_address}", "index::TableId::{log_index, from_log_index}"],
     bounds="growth arithmetic: index sizes 16..=48, all keys/addresses; page operations: the real 64-slot page with arbitrary content, any key, any address, "
            "any slot, index sizes {16,17,24,40} concrete; unwind 66",
     outside="batch scheduling of reindex (process_reindex/next_reindex), DropTable enactment and file removal, interleaving with commits/restarts/crashes, "
             "collision chains through the value tables at column level (three probes timed out, DESIGN 3.7), pages on disk (mmap FFI)",
     assumptions=["replace (sub_index = Some(i)) is called only on a slot carrying the key's partial key (asserted by the code itself)"])
add("C09", H("index", "c20_m12_c09_g1_recover_prefix", "quick", ["C09.G1"], "bits:u8 in 16..=48, key prefix:u64, address:u64", "loop-free; all values", 120, 2))
add("C09", H("index", "c09_g2_address_overflow_refused", "quick", ["C09.G2"], "bits, address, partial key", "loop-free", 120, 2))
add("C09", H("index", "c09_g3_log_index_roundtrip", "quick", ["C09.G3"], "two (col:u8, bits in 16..48) pairs", "loop-free", 120, 2))
for b, tier in ((16, "quick"), (17, "thorough"), (24, "quick"), (40, "thorough")):
    add("C09", H("index", "c09_p1_insert_new_b%d" % b, tier, ["C09.P1", "C09.P2", "C09.G2"], "page:[u64;64], key:u64, address:u64", "bits=%d; unwind 66" % b, 900, 6,
                 unwind=66, stubs=ENV + CAPIDX, replay="solver-trace-only"))
for b, tier in ((16, "quick"), (24, "thorough"), (40, "quick")):
    add("C09", H("index", "c09_p3_replace_b%d" % b, tier, ["C09.P3", "C09.G2"], "page, key, old/new address; slot in {0,1,31,62,63}", "bits=%d; unwind 66" % b, 900, 6,
                 unwind=66, stubs=ENV + CAPIDX, replay="solver-trace-only"))
    add("C09", H("index", "c09_p4_remove_b%d" % b, tier, ["C09.P4"], "page, key; slot in {0,1,31,62,63}", "bits=%d; unwind 66" % b, 900, 6,
                 unwind=66, stubs=ENV + CAPIDX, replay="solver-trace-only"))

# ======================================================================================== C07
prop("C07",
     functions=["ValueTable::{change_ref, write_inc_ref, write_dec_ref, write_remove_plan}", "table::Entry::{read_rc, write_rc, read_size, is_tombstone, is_multi}"],
     bounds="every u32 counter value; 64-byte entries (complete entry of 40 payload bytes / multipart head), entry in the record overlay or on disk; one operation",
     outside="commit-overlay interplay while queued, restarts, btree columns' counts, iter_column_while, column-level histories (DESIGN 3.7)",
     assumptions=[])
for fn in ("c07_r1_change_ref_overlay", "c07_r1_change_ref_disk", "c07_r1_change_ref_tombstone"):
    add("C07", H("table", fn, "quick", ["C07.R1"], "counter:u32, delta in {+1,-1}, all other entry bytes", "entry 64 bytes; unwind 66", 900, 8, unwind=66,
                 stubs=ENV + OVERLAY + TFILE, replay="playback-native-env"))

# ======================================================================================== C14
prop("C14",
     functions=["ValueTable::{next_free, read_next_free, clear_slot, clear_chain, write_remove_plan, complete_plan}"],
     bounds="value table of 6 slots x 32 bytes with arbitrary disk content constrained only by the free-list invariant; one operation per harness (inductive step)",
     outside="btree reachability, ref-count table vs parent counts, recovery, growth leftovers, iteration; column-level index<->value consistency (DESIGN 3.7)",
     assumptions=["pre-state satisfies the free-list representation invariant (acyclic, in range, tombstones only)"])
add("C14", H("table", "c14_t1_next_free_step", "quick", ["C14.T1", "C14.T2h"], "disk:[u8;192], filled, last_removed, flags", "6 slots x 32 bytes; unwind 66", 900, 8,
             unwind=66, stubs=ENV + OVERLAY + TFILE, replay="playback-native-env"))
add("C14", H("table", "c14_t2_clear_slot_step", "quick", ["C14.T2"], "disk:[u8;192], filled, last_removed, freed slot", "6 slots x 32 bytes; unwind 66", 900, 8,
             unwind=66, stubs=ENV + OVERLAY + TFILE, replay="playback-native-env"))
add("C14", H("table", "c14_twin_must_fail", "quick", [], "as T1", "must-fail twin", 900, 8, twin=True, unwind=66, stubs=ENV + OVERLAY + TFILE))

# ======================================================================================== C13
prop("C13",
     functions=["LogReader::{next, read}", "ValueTable::{validate_plan, enact_plan}", "IndexTable::{validate_plan, skip_plan}", "crc32fast (portable path)"],
     bounds="one next() on <= 16 arbitrary bytes with arbitrary truncation; CRC gate over a record with 2 / 8 payload bytes",
     outside="multiple log files and their ordering at Log::open, stale generations, zero-length files (directory level, FFI); records longer than the bound",
     assumptions=[])
FILEREAD = ["stub: <File as Read>::read -> bytes of a static buffer with symbolic content and symbolic logical length (EOF past the end)",
            "stub: crc32fast::Hasher::internal_new_specialized -> None (portable table-driven CRC, real code)"]
add("C13", H("log", "c13_p1a_parser_one_action", "quick", ["C13.P1"], "16 log bytes, logical length 0..=16 (reader without checksum validation, as used when applying)", "one action; unwind 12", 900, 8,
             unwind=12, stubs=ENV + FILEREAD, replay="solver-trace-only"))
add("C13", H("log", "c13_p1a_parser_one_action_validating", "thorough", ["C13.P1"], "16 log bytes, logical length 0..=16 (validating reader: real CRC)", "one action; unwind 12", 2400, 16,
             unwind=12, stubs=ENV + FILEREAD, replay="solver-trace-only"))
add("C13", H("log", "c13_p1b_crc_gate_n2", "quick", ["C13.P1"], "record id, table, index, 2 payload bytes, stored checksum", "record of 27 bytes; real CRC; unwind 40", 900, 8,
             unwind=40, stubs=ENV + FILEREAD, replay="solver-trace-only"))
add("C13", H("log", "c13_p1b_crc_gate_n8", "thorough", ["C13.P1"], "record id, table, index, 8 payload bytes, stored checksum", "record of 33 bytes; real CRC; unwind 40", 1800, 12,
             unwind=40, stubs=ENV + FILEREAD, replay="solver-trace-only"))
add("C13", H("log", "c13_twin_must_fail", "quick", [], "16 log bytes", "must-fail twin", 900, 8, twin=True, unwind=12, stubs=ENV + FILEREAD))

# ======================================================================================== C12
prop("C12",
     functions=["Log::flush_one", "Log::read_next", "Log::clean_logs"],
     bounds="struct-literal Log with 0-1 appending file, 0-1 queued file, 0-2 files to clean; flags, sizes and failure choices symbolic",
     outside="msync/fsync semantics, which pages reach the disk (kernel), TableFile::grow's flush of the old mapping (mmap FFI), sync_wal=false configurations, "
             "thread interleavings between the commit, flush and cleanup workers",
     assumptions=["File::{sync_data, sync_all, set_len, seek} replaced by event-recording models that may fail nondeterministically"])
FEV = ["stub: File::{sync_data, sync_all, set_len}, <File as Seek>::seek -> event-recording, nondeterministically failing models", "stub: File::try_clone -> another handle on the same file (dup is FFI)",
       "stub: <OwnedFd as Drop>::drop -> no-op (harness fds are fabricated, never opened)"]
add("C12", H("log", "c12_o1_flush_one_syncs_before_handover", "quick", ["C12.O1"], "sync flag, size, threshold, sync failure", "one call", 600, 4, unwind=6, stubs=ENV + FEV, replay="solver-trace-only"))
add("C12", H("log", "c12_o2_read_next_only_from_read_queue", "thorough", ["C12.O2"], "12 log bytes, queue shape, validate flag", "one call; the real 8 KiB BufReader", 2400, 12, unwind=50, stubs=ENV + FEV + FILEREAD, replay="solver-trace-only"))
add("C12", H("log", "c12_o2_read_next_exhausted_file", "thorough", ["C12.O2"], "empty file, queue shape", "one call", 2400, 12, unwind=50, stubs=ENV + FEV + FILEREAD, replay="solver-trace-only"))
for nq, mx, tier in ((0, 1, "thorough"), (1, 0, "thorough"), (1, 1, "quick"), (2, 1, "quick"), (2, 2, "quick"), (2, 3, "thorough")):
    add("C12", H("log", "c12_o3a_clean_logs_q%d_m%d" % (nq, mx), tier, ["C12.O3"], "%d dirty log(s), max_count %d, failure choices symbolic" % (nq, mx), "one call", 900, 6,
                 unwind=8, stubs=ENV + FEV, replay="solver-trace-only"))

# ---- C13.P2
RDSTUB = ["stub: LogReader::read -> length-accounting model (advances the position, fails past the logical end, copies only the first 16 payload bytes)",
          "stub: TableFile::write_at -> records (offset, length) of each call"]
add("C13", H("log", "c13_p2_value_validate_enact_e64", "quick", ["C13.P2"], "16 head bytes (size field/markers), available bytes 0..=0x8100, multipart, rc flags, slot 0..8",
             "entry size 64; unwind 20", 1500, 20, unwind=20, stubs=ENV + RDSTUB, replay="solver-trace-only"))
add("C13", H("log", "c13_p2_value_validate_enact_e4096", "thorough", ["C13.P2"], "as e64", "entry size 4096 (the real multipart tier); unwind 20", 2400, 24, unwind=20,
             stubs=ENV + RDSTUB, replay="solver-trace-only"))
PROPS["C13"]["functions"] += ["ValueTable::validate_plan", "ValueTable::enact_plan"]

# ======================================================================================== C06
prop("C06",
     functions=["ValueTable::{value_size, overwrite_chain, write_insert_plan, write_replace_plan, clear_chain, clear_slot, next_free, read_next_part, for_parts, query, size, write_remove_plan}",
                "table::Entry header readers/writers", "TableKey::{write, fetch, compare, encoded_size}", "Column::compress (tier selection)", "column::SIZES"],
     bounds="chains: multipart table with 32-byte parts (22 payload bytes per head/continuation, 30 in the tail), value lengths 0..=96 enumerated, one write harness and one read/remove harness per length, each against the on-disk format specification (part boundaries in quick, all 97 in thorough), "
            "contents/flags symbolic; tier selection: the real 255-entry SIZES table, Column::compress over a 3-table slice {32, 64, multipart} with codec replaced by a length model",
     outside="the codecs themselves (lz4 FFI, snap), values of 5 or more parts, the real 4096-byte multipart entry size, column-level move between tiers, "
             "pre-states with a non-empty free list for chain writes",
     assumptions=["Compress::compress replaced by a model returning an output of arbitrary (enumerated) length"])
add("C06", H("table", "c06_s1a_value_size_per_tier", "quick", ["C06.S1"], "rc flag, key kind; all 255 tiers (concrete loop)", "unwind 260", 900, 6, unwind=260, stubs=[]))
add("C06", H("column", "c06_s1b_compress_tier_a", "quick", ["C06.S1"], "(value length, codec output length) from 10 boundary pairs; threshold:u32, rc, key kind symbolic", "3 tables {32,64,multipart}", 900, 6,
             unwind=102, stubs=["stub: Compress::compress -> output of harness-chosen length"]))
add("C06", H("column", "c06_s1b_compress_tier_b", "thorough", ["C06.S1"], "10 more (length, output length) pairs", "3 tables", 900, 6, unwind=102,
             stubs=["stub: Compress::compress -> output of harness-chosen length"]))
_c06_quick = {0, 30, 31, 53, 75}
for l in range(0, 97):
    tier = "quick" if l in _c06_quick else "thorough"
    add("C06", H("table", "c06_w_len%d" % l, tier, ["C06.S2"], "value bytes [u8;100], compressed flag; length %d: write_insert_plan output vs. the format specification" % l,
                 "32-byte parts, <= 4 parts; unwind 102", 1500, 5, unwind=102, stubs=ENV + OVERLAY + TFILE, replay="playback-native-env"))
    add("C06", H("table", "c06_r_len%d" % l, tier, ["C06.S2", "C06.S4"], "value bytes, compressed flag, overlay or disk; length %d: specified entries at scattered slots read back / are released" % l,
                 "32-byte parts, <= 4 parts; unwind 102", 1500, 5, unwind=102, stubs=ENV + OVERLAY + TFILE, replay="playback-native-env"))
for l in (0, 1, 26, 27, 48, 49, 70, 71, 92):
    tier = "quick" if l in (27,) else "thorough"
    add("C06", H("table", "c06_w_rc_len%d" % l, tier, ["C06.S2"], "as above on a ref-counted table; length %d" % l, "32-byte parts; unwind 102", 1500, 5, unwind=102, stubs=ENV + OVERLAY + TFILE, replay="playback-native-env"))
    add("C06", H("table", "c06_r_rc_len%d" % l, tier, ["C06.S2", "C06.S4"], "as above on a ref-counted table (any counter >= 1); length %d" % l, "32-byte parts; unwind 102", 1500, 5, unwind=102, stubs=ENV + OVERLAY + TFILE, replay="playback-native-env"))
_c06_pairs = [(0, 30), (30, 0), (10, 20), (1, 30), (31, 53), (53, 31), (52, 75), (75, 31), (74, 75), (75, 74), (96, 31), (31, 96), (53, 53)]
for o, n in _c06_pairs:
    add("C06", H("table", "c06_s3_replace_%d_to_%d" % (o, n), "quick" if (o, n) in ((31, 53), (75, 31), (10, 20)) else "thorough", ["C06.S3"],
                 "old/new value bytes, flags; length %d replaced by %d (same table kind: both single-entry or both chained); result vs. the format specification" % (o, n), "32-byte parts; unwind 102", 1800, 6, unwind=102, stubs=ENV + OVERLAY + TFILE, replay="playback-native-env"))
for o, n in [(0, 26), (26, 0), (27, 49), (49, 27), (71, 27)]:
    add("C06", H("table", "c06_s3_replace_rc_%d_to_%d" % (o, n), "thorough", ["C06.S3"], "as above, ref-counted table", "32-byte parts; unwind 102", 1800, 6,
                 unwind=102, stubs=ENV + OVERLAY + TFILE, replay="playback-native-env"))

# ---- C07.R2
for fn in ("c07_r2_dispatch_set_replace", "c07_r2_dispatch_set_counted", "c07_r2_dispatch_set_preimage", "c07_r2_dispatch_reference", "c07_r2_dispatch_dereference", "c07_r2_dispatch_tree_ops"):
    add("C07", H("column", fn, "quick", ["C07.R2"], "counter:u32>=1, key, old/new value bytes, ref_counted and preimage flags", "existing 8-byte value in a 64-byte tier; one operation", 1200, 10,
                 unwind=102, stubs=ENV + OVERLAY + TFILE, replay="playback-native-env"))
# c07_r2_dispatch_tree_ops3 (InsertTree on a keyed value) is NOT registered: 20 min without a verdict (recursive drop glue of NewNode, 10.3 lesson 4)
for fn in ("c07_r2_dispatch_tree_ops2",):
    add("C07", H("column", fn, "thorough", ["C07.R2"], "as above", "one operation", 1200, 10, unwind=102, stubs=ENV + OVERLAY + TFILE, replay="playback-native-env"))
PROPS["C07"]["functions"] += ["Column::write_existing_value_plan (all six Operation arms)"]

# ======================================================================================== C01
prop("C01",
     functions=["column::hash_key (uniform v8 siphash branch, v<=5 / v6-7 branches, Blake2b branch)"],
     bounds="uniform keys of length 32..=48 (enumerated), any salt with salt[0] != 0, any bytes; hashed keys of length {0,1,31,32,33,40}",
     outside="everything about when a layer hands over to the next (C05), clean reopen, multi-column transactions, compression; the pipeline as a whole",
     assumptions=[])
add("C01", H("column", "c01_k1_hash_key_uniform_32_36", "quick", ["C01.K1"], "key bytes [u8;48], salt [u8;32]; length in 32..=36", "unwind 50", 900, 6, unwind=50))
add("C01", H("column", "c01_k1_hash_key_uniform_37_48", "quick", ["C01.K1"], "key bytes, salt; length in {37,39,40,41,47,48}", "unwind 50", 900, 6, unwind=50))
add("C01", H("column", "c01_k1_hash_key_uniform_old_versions", "quick", ["C01.K1"], "key bytes, salt, length 32..=40, db version 4..=7", "unwind 50", 900, 6, unwind=50))
add("C01", H("column", "c01_k1_hash_key_hashed_total", "thorough", ["C01.K1"], "key bytes, salt; length in {0,1,31,32,33,40}", "unwind 140", 1800, 10, unwind=140))

# ======================================================================================== C10
prop("C10",
     functions=["column::unpack_node_data", "column::unpack_node_children", "column::packed_node_size"],
     bounds="node byte strings of length <= 40 with (length, child count) enumerated over 20 pairs incl. count 255; all other bytes symbolic",
     outside="recursive dereference walk over a stored tree (needs TreeReader / Arc<DbInner>), deferral (C11), root counts through the pipeline, multi-part nodes",
     assumptions=[])
_c10_pairs = [(0, 0), (1, 0), (1, 1), (8, 1), (9, 1), (10, 1), (16, 2), (17, 2), (18, 2), (5, 0), (25, 3), (24, 3), (26, 3), (33, 4), (40, 4), (40, 5), (40, 0), (3, 255), (40, 255), (40, 128)]
for l, c in _c10_pairs:
    add("C10", H("column", "c10_n1_unpack_l%d_c%d" % (l, c), "quick" if (l, c) in ((9, 1), (17, 2), (26, 3)) else "thorough", ["C10.N1"],
                 "node bytes [u8;40]; length %d, trailing count byte %d" % (l, c), "unwind 42", 1500, 10, unwind=42, stubs=FMT_STUB))

# ======================================================================================== C08 (mapsub build)
MAPSUB = ["model: std HashMap/HashSet in db.rs, log.rs, column.rs, options.rs replaced by a fixed-capacity association array (crate::verif_map, capacity 2; last write wins, "
          "entry() sees what get() sees, iteration visits each live pair once in slot order) — validated natively against std::HashMap at setup"]
prop("C08",
     functions=["IndexedChangeSet::{check_operations, copy_to_overlay}", "BTreeChangeSet::{check_operations, copy_to_overlay}", "DbInner::commit_raw"],
     bounds="change sets of 2-3 operations over 2 keys, all six operation kinds, ref_counted flags symbolic; commit_raw over 2 columns (hash+hash, hash+btree), "
            "background error present or not; struct-literal DbInner (no columns, no files)",
     outside="side effects taken before commit_raw is reached by commit_changes on multitree columns (claimed node slots, queued-dereference counters); persistence 'at that time or later'; "
             "iteration order of the real HashMap (one order checked; asserted post-conditions are order-insensitive)",
     assumptions=["commit queue below its byte limit (no waiting)"])
add("C08", H("db", "c08_a1_checked_changeset_copies_without_error", "quick", ["C08.A1"], "3 operations over 2 keys, kinds from all six, ref_counted", "unwind 34", 900, 6, variant="mapsub",
             unwind=34, stubs=FMT_STUB + MAPSUB, replay="solver-trace-only"))
add("C08", H("db", "c08_a1_checked_btree_changeset_copies_without_error", "quick", ["C08.A1"], "1 operation, 5 kinds, ref_counted", "unwind 34", 1200, 8, variant="mapsub",
             unwind=34, stubs=FMT_STUB + MAPSUB, replay="solver-trace-only"))
for fn, tier in (("c08_a2_commit_raw_hh_set_set_reference", "quick"), ("c08_a2_commit_raw_hb_set_set_reference", "thorough"), ("c08_a2_commit_raw_hh_set_reference_set", "thorough"),
                 ("c08_a2_commit_raw_hh_set_deref_treeop", "thorough"), ("c08_a2_commit_raw_hb_deref_set_treeop", "thorough"), ("c08_a2_commit_raw_hh_set_set_set", "thorough")):
    add("C08", H("db", fn, tier, ["C08.A2"], "3 operations in 2 columns, kinds concrete per harness; values, ref_counted flags of both columns, background error, old overlay value symbolic",
                 "unwind 3 (bounds the recursive drop glue of NewNode that CBMC explores when the rejected change set is dropped) + unwindset memcmp.0:34 (32-byte key compare)",
                 2400, 20, variant="mapsub", unwind=3, cbmc_args=["--unwindset", "memcmp.0:34"], stubs=ENV + MAPSUB, replay="solver-trace-only"))
add("C08", H("db", "c08_twin_must_fail", "quick", [], "one operation", "must-fail twin", 600, 4, variant="mapsub", twin=True, unwind=34, stubs=FMT_STUB + MAPSUB))
for h in _H["C08"]:
    h["name"] = h["name"].replace("::verif_kani::", "::verif_kani_ms::")

# ---- C01.K2 (mapsub)
add("C01", H("db", "c01_k2_commit_overlay_last_write_wins", "quick", ["C01.K2"], "2 commits x 1 operation (Set/Dereference and value symbolic, key pattern enumerated), retired commit id", "2 keys; unwind 34", 1500, 10,
             variant="mapsub", unwind=34, stubs=FMT_STUB + MAPSUB, replay="solver-trace-only"))
_H["C01"][-1]["name"] = _H["C01"][-1]["name"].replace("::verif_kani::", "::verif_kani_ms::")
PROPS["C01"]["functions"] += ["IndexedChangeSet::{copy_to_overlay, clean_overlay}", "CommitOverlay::{get, get_size}"]

def _ms(pid):
    _H[pid][-1]["name"] = _H[pid][-1]["name"].replace("::verif_kani::", "::verif_kani_ms::")

add("C01", H("log", "c01_k3_end_read_retires_only_own_entries", "quick", ["C01.K3"], "record ids of 4 overlay entries, finishing record id, next_record_id, values", "one call; 1 index / 2 value / 1 ref-count overlays; unwind 40", 1800, 12,
             variant="mapsub", unwind=40, stubs=ENV + MAPSUB, replay="solver-trace-only"))
_ms("C01")
PROPS["C01"]["functions"] += ["Log::end_read"]
add("C10", H("log", "c10_m1_ref_count_masks_accumulate", "quick", ["C10.M1"], "two (page, entry) modifications of ref-count pages: page number, same/different page, entry numbers, content byte", "one record; unwind 10", 1800, 16,
             variant="mapsub", unwind=10, stubs=ENV + MAPSUB, replay="solver-trace-only"))
_ms("C10")
add("C09", H("log", "c09_m1_index_masks_accumulate", "quick", ["C09.M1"], "two (page, entry) modifications of index pages", "one record; unwind 10", 1800, 16,
             variant="mapsub", unwind=10, stubs=ENV + MAPSUB, replay="solver-trace-only"))
_ms("C09")
PROPS["C09"]["functions"] += ["LogWriter::insert_index", "<LogWriter as LogQuery>::with_index"]
PROPS["C10"]["functions"] += ["LogWriter::{insert_ref_count, insert_index}", "<LogWriter as LogQuery>::ref_count"]

# ======================================================================================== C04
prop("C04",
     functions=["btree::node::Node::{position, number_separator, shift_from, remove_from, split, remove_separator, remove_child, from_encoded}",
                "btree::Entry::{write_separator, read_separator, write_child_index, read_child_index}"],
     bounds="nodes of up to 8 separators with symbolic 1-2 byte keys (strictly increasing), symbolic operation position; separator codec at key lengths {0,1,254,255,256}; "
            "decoding of arbitrary entries up to 24 bytes",
     outside="iter_inner's merge of overlay and tree cursors, re-seek on record change, multi-level change/rebalance/remove_last, depth uniformity of a whole tree, iteration under concurrent commits",
     assumptions=["node pre-states are sorted and packed (a prefix of Some separators)"])
add("C04", H("btree::node", "c04_b1_position", "quick", ["C04.B1"], "n in 0..=8, keys, probe key (1-2 bytes)", "unwind 12", 1500, 8, unwind=12))
for fn, tier in (("c04_b2_shift_from_leaf_n7", "quick"), ("c04_b2_shift_from_inner_n7_right", "thorough"), ("c04_b2_shift_from_inner_n7_left", "thorough"), ("c04_b2_shift_from_inner_n4_left", "thorough"),
                 ("c04_b2_remove_from_leaf_n8", "thorough"), ("c04_b2_remove_from_inner_n8_right", "thorough"), ("c04_b2_remove_from_inner_n8_left", "quick"), ("c04_b2_remove_from_inner_n5_left", "thorough"),
                 ("c04_b2_split_leaf", "thorough"), ("c04_b2_split_inner", "thorough")):
    add("C04", H("btree::node", fn, tier, ["C04.B2"], "keys, position", "unwind 12", 1500, 8, unwind=12))
add("C04", H("btree::node", "c04_twin_must_fail", "quick", [], "keys", "must-fail twin", 600, 4, twin=True, unwind=12))
for l, tier in ((0, "thorough"), (1, "quick"), (254, "quick"), (255, "quick"), (256, "thorough")):
    add("C04", H("btree", "c04_b3_separator_codec_%d" % l, tier, ["C04.B3"], "key bytes, value address, child address", "key length %d; unwind 280" % l, 1500, 8, unwind=280, stubs=FMT_STUB))
add("C04", H("btree", "c04_b3_decode_arbitrary_bytes", "quick", ["C04.B3"], "entry bytes [u8;24], length 0..=24", "unwind 26", 1500, 8, unwind=26, stubs=FMT_STUB))
for fn, tier in (("c04_b3_node_from_encoded_n0", "thorough"), ("c04_b3_node_from_encoded_n1_inner", "quick"), ("c04_b3_node_from_encoded_n2_leaf", "thorough"),
                 ("c04_b3_node_from_encoded_n3_inner", "thorough"), ("c04_b3_node_from_encoded_n8_inner", "thorough"), ("c04_b3_node_from_encoded_n8_leaf", "thorough")):
    add("C04", H("btree", fn, tier, ["C04.B3"], "one-byte keys, addresses, children of a node of concrete size", "unwind 12", 2400, 10, unwind=12, stubs=FMT_STUB))
# c04_b4_overlay_cursor_n* (CommitOverlay::{btree_next, btree_prev} over std's BTreeMap, harness/db.rs) are NOT registered:
# one insert + two range queries did not finish in 15 minutes (the design expected this: "if not, B4 is dropped").

# ---- C10 (mapsub): tree packing and ref-count steps
PROPS["C10"]["functions"] += ["HashColumn::{claim_tree_values, prepare_children, prepare_node, claim_children_to_data, claim_node}", "ValueTable::claim_entries",
                              "HashColumn::{write_address_inc_ref_plan, write_address_dec_ref_plan, write_ref_count_plan_new, write_ref_count_plan_existing, search_all_ref_count}",
                              "RefCountTable::{get, write_insert_plan, write_remove_plan, plan_insert_chunk, plan_remove_chunk, chunk_index}"]
PROPS["C10"]["bounds"] += "; trees: root with 0..=2 children (New leaf / Existing, pattern enumerated) and 0..=2 data bytes, the 256-children rejection (root and nested; acceptance of exactly 255 children is covered only by decoding, C10.N1), miniature multitree column {32, 64, multipart}; ref-count steps on one node address (3 slots symbolic)"
# c10_n2_claim_tree_c* (accept path of claim_tree_values, harness/column_ms.rs claim_case) are NOT registered: even with the
# New/Existing pattern concrete and unwind 4, CBMC's exploration of the prepare_node/prepare_children recursion on child
# vectors it cannot see through did not finish symbolic execution in 20 minutes (DESIGN 10.4).
for fn in ("c10_n2_claim_tree_256_children_rejected", "c10_n2_claim_tree_nested_256_rejected"):
    add("C10", H("column", fn, "quick", ["C10.N2", "C08.A3"], "concrete wide node (255 / 256 children, one New child)", "unwind 260", 1800, 10,
                 variant="mapsub", unwind=260, stubs=ENV + MAPSUB, replay="solver-trace-only"))
    _ms("C10")
# c10_n3_ref_count_steps (harness/column_ms.rs) is NOT registered: five ref-count operations through the map model with
# 512-byte pages did not finish symbolic execution in 20 minutes.
add("C10", H("ref_count", "c10_g3_ref_count_log_index_roundtrip", "quick", ["C10.G3"], "two (col, bits) pairs", "loop-free", 300, 2))
add("C10", H("ref_count", "c10_e1_entry_roundtrip", "quick", ["C10.E1"], "address, count, entry position", "loop-free", 300, 2))
# the rejected-tree storage obligation also serves C08
for fn in ("c10_n2_claim_tree_256_children_rejected", "c10_n2_claim_tree_nested_256_rejected"):
    add("C08", H("column", fn, "quick", ["C08.A3"], "concrete wide node (256 children, one New child)", "unwind 260", 1800, 10,
                 variant="mapsub", unwind=260, stubs=ENV + MAPSUB, replay="solver-trace-only"))
    _ms("C08")
PROPS["C08"]["functions"] += ["HashColumn::claim_tree_values (rejected node claims no storage)"]

add("C01", H("table", "c01_g1_value_table_log_index", "quick", ["C01.G1"], "two (column, tier) pairs, column count", "loop-free; all values", 300, 2))
PROPS["C01"]["functions"] += ["table::TableId::{new, log_index, from_log_index, max_log_tables}"]
add("C14", H("table", "c14_t0_init_free_stack_matches_disk_list", "quick", ["C14.T0"], "disk:[u8;192], filled, last_removed (free list of <= 3 slots)", "6 slots x 32 bytes; unwind 40", 1200, 12,
             unwind=40, stubs=ENV + OVERLAY + TFILE, replay="playback-native-env"))
PROPS["C14"]["functions"] += ["ValueTable::{init_table_data, claim_entries}"]
add("C13", H("log", "c13_r1_clear_replay_logs_discards_everything", "quick", ["C13.R1"], "active reader present or not, 0..=2 queued replay files", "one call; unwind 8", 900, 6,
             unwind=8, stubs=ENV + FEV, replay="solver-trace-only"))
PROPS["C13"]["functions"] += ["Log::clear_replay_logs"]
add("C07", H("db", "c07_k1_counted_dereference_leaves_overlay_alone", "quick", ["C07.K1"], "value byte, Dereference or Reference", "two queued commits on one key; unwind 34", 900, 6,
             variant="mapsub", unwind=34, stubs=FMT_STUB + MAPSUB, replay="solver-trace-only"))
_ms("C07")
PROPS["C07"]["functions"] += ["IndexedChangeSet::{copy_to_overlay, clean_overlay} (ref-counted arms)"]

add("C13", H("log", "c13_p2i_index_validate_b16", "thorough", ["C13.P2"], "page number:u64, 8 mask bytes, available bytes 0..=0x400", "index size 16; unwind 66", 1200, 8, unwind=66, stubs=ENV + RDSTUB, replay="solver-trace-only"))
add("C13", H("log", "c13_p2i_index_validate_b20", "thorough", ["C13.P2"], "as b16", "index size 20; unwind 66", 1200, 8, unwind=66, stubs=ENV + RDSTUB, replay="solver-trace-only"))
# c13_p3_enact_logs_validation_gate (harness/db.rs) is NOT registered: DbInner::enact_logs drops `Error` values on its
# reject paths and CBMC does not get through the drop glue of io::Error's boxed `dyn Error` payload (3 probes, 7-20 min
# each, never left symbolic execution; -Z restrict-vtable did not help). The record-sequence gate of enact_logs is
# therefore outside the C13 claim (DESIGN 10.4).
PROPS["C13"]["functions"] += ["IndexTable::{validate_plan, skip_plan}"]
PROPS["C13"]["bounds"] += "; value-table payloads: entry sizes 64 / 4096, all 2^16 size fields, any slot; index pages: any page number and mask"

# c12_o3b_db_clean_logs_* (harness/db.rs: DbInner::clean_logs with a table-flush model during which another worker may
# append to the cleanup queue) are NOT registered: both timed out after 30 minutes (same Error drop-glue problem as
# C13.P3). DbInner-level ordering of flush vs. truncation is therefore outside the C12 claim; Log::clean_logs is claimed.

# ---- C09.Q (lookups through current and queued indexes) and C07.W (write_plan on colliding keys): harness code exists
# (harness/column.rs lookup_case, harness/column_ms.rs write_plan_case) but does not finish symbolic execution within
# 20 minutes; not registered (DESIGN 10.4).
EXPERIMENTAL = True
FINDC = ["stub: IndexTable::find_entry -> its contract"]
OVVIEW = ["model: read paths generic in `impl LogQuery` are driven with harness type OvView"]
add("C07", H("table", "c07_r1_change_ref_multihead", "thorough", ["C07.R1"], "counter:u32, delta, all other bytes of a multipart head", "entry 64 bytes; unwind 66 (slow: both the multipart and the size-field branch of change_ref are explored on the 32 KiB buffer)", 5400, 10, unwind=66,
             stubs=ENV + OVERLAY + TFILE, replay="playback-native-env"))

# ======================================================================================== round 3 (DESIGN 10.7)
# ---- caller loops over index candidates, assume/guarantee (IndexTable::get by contract, confirmation verdict symbolic)
GETC = ["stub: IndexTable::get -> its contract over a harness-chosen candidate list (first matching slot >= sub_index, else empty); C19 proves find_entry refines it",
        "stub: ValueTable::has_key_at / Column::get_value -> symbolic verdict per candidate address (does the stored key tail match)"]
_l_shapes = (("current_3", "quick"), ("cur1_q1_q2", "quick"), ("cur0_q2_q2", "thorough"), ("cur2_q0_q2", "thorough"))
for pid, lab in (("C09", "C09.L"), ("C07", "C09.L"), ("C01", "C09.L"), ("C14", "C14.L")):
    for shp, tier in _l_shapes:
        if pid in ("C07", "C14"):
            add(pid, H("column", "c09_l_search_" + shp, tier, [lab, "C14.L"], "candidate slots (strictly increasing per index), confirmation verdict per candidate, key; candidates per (current, queued 16-bit, queued 17-bit) index as named",
                       "<= 4 candidates over 3 index tables; unwind 12", 900, 4, unwind=12, stubs=ENV + GETC, replay="solver-trace-only"))
        if pid in ("C09", "C01", "C14"):
            add(pid, H("column", "c09_l_get_" + shp, tier, [lab, "C14.L"], "as above (read path: HashColumn::get / get_in_index)", "<= 4 candidates over 3 index tables; unwind 12", 900, 4,
                       unwind=12, stubs=ENV + GETC, replay="solver-trace-only"))
        if pid == "C09":
            add(pid, H("column", "c09_l_search_" + shp, tier, [lab], "as above (write path: HashColumn::search_all_indexes / search_index)", "<= 4 candidates over 3 index tables; unwind 12", 900, 4,
                       unwind=12, stubs=ENV + GETC, replay="solver-trace-only"))
PROPS["C09"]["functions"] += ["HashColumn::{get, get_in_index, search_all_indexes, search_index} (candidate loops; IndexTable::get and the key-tail confirmation by contract)",
                              "HashColumn::{reindex, drop_index} (IndexTable::entries / drop_file by contract)"]
PROPS["C07"]["functions"] += ["HashColumn::{search_all_indexes, search_index} (candidate loop)"]
PROPS["C01"]["functions"] += ["HashColumn::{get, get_in_index} (candidate loop over current and queued indexes)"]
PROPS["C14"]["functions"] += ["HashColumn::{get, get_in_index, search_all_indexes, search_index} (values are only fetched at addresses that came out of an index entry)"]
# ---- reindex batch and hand-over
ENTC = ["stub: IndexTable::entries -> page p of the source index is a symbolic sparse page (3 symbolic entries at symbolic slots)", "stub: IndexTable::drop_file -> counts calls (remove_file is FFI)"]
add("C09", H("column", "c09_r_drop_index_restarts_progress", "quick", ["C09.R"], "progress cursor:u64, dropped id in {queue front, second, foreign}", "queue of 2 older indexes; one call", 600, 4, unwind=12, stubs=ENV + ENTC, replay="solver-trace-only"))

# ---- iosub build: DbInner-level obligations (C13.P3 record gate)
IOSUB = ["model: payload of Error::Io / Error::Locked reduced to its ErrorKind (crate::verif_io::IoErr; parity-db only inspects kind()); the drop glue of std::io::Error is not explored"]
CRCU = ["stub: crc32fast::Hasher::{update, finalize} -> uninterpreted checksum (one fixed arbitrary u32); the real CRC is used in C13.P1b and c13_p3_enact_logs_validation_gate"]
for fn, tier in (("begin_end", "quick"), ("begin_begin", "thorough"), ("begin_insert_value", "quick"), ("begin_insert_index", "thorough"), ("begin_drop_table", "quick"), ("begin_unknown_tag", "thorough"),
                 ("begin_only", "quick"), ("begin_torn", "thorough"), ("begin_end_torn", "quick"), ("starts_with_insert", "thorough"), ("empty_file", "thorough")):
    # c13_p3g_gate_starts_with_end is NOT registered: > 30 min without a verdict (a log that starts with EndRecord: the reader validates a checksum over zero bytes and the harness explores the reset / seek path on a symbolic position)
    add("C13", H("db", "c13_p3g_gate_" + fn, tier, ["C13.P3"], "log bytes other than the two action tags (record number, table ids, stored checksum, payload), last_enacted:u64, checksum value:u32",
                 "record shape (action tags, truncation offset) as named; database without columns; one enact_logs(validation) call; unwind 20", 1500, 10, variant="iosub", unwind=20,
                 stubs=ENV + FILEREAD + IOSUB + CRCU, replay="solver-trace-only"))
add("C13", H("db", "c13_p3_enact_logs_validation_gate", "thorough", ["C13.P3"], "record id:u64 of a minimal checksum-valid record (real CRC), last_enacted:u64", "database without columns; one call; unwind 40", 3600, 14,
             variant="iosub", unwind=40, stubs=ENV + FILEREAD + IOSUB, replay="solver-trace-only"))
PROPS["C13"]["functions"] += ["DbInner::enact_logs (validation mode: record-sequence gate, whole-record validation before last_enacted moves, replay queue discarded)", "Log::{read_next, clear_replay_logs}", "LogReader::{next, reset}"]
for fn, tier in (("c09_r_reindex_batch_last_two_pages", "quick"), ("c09_r_reindex_batch_last_page", "thorough"), ("c09_r_reindex_batch_nothing_left", "quick")):
    add("C09", H("column", fn, tier, ["C09.R"], "none beyond the page layout (live slots and their content are concrete; the entry arithmetic is C20.M2 / C09.G1)", "source index of 16 bits, 0..=2 pages left; unwind 66", 600, 4,
                 unwind=66, stubs=ENV + ENTC, replay="solver-trace-only"))
# ---- C04.R: Node::rebalance over a parent and three children held by the harness
NODEC = ["stub: Node::fetch_child -> the harness's child nodes (a node rewritten earlier in the call is read back as written)",
         "stub: BTreeTable::write_node_plan -> captures (address, node), rewrites in place", "stub: BTreeTable::write_plan_remove_node -> records the released address (at most once each)"]
for fn, tier in (("c04_r_rebalance_borrow_left_inner", "quick"), ("c04_r_rebalance_borrow_left_leaf", "thorough"), ("c04_r_rebalance_borrow_right_inner_first", "quick"),
                 ("c04_r_rebalance_borrow_right_inner_mid", "thorough"), ("c04_r_rebalance_borrow_right_leaf", "quick"), ("c04_r_rebalance_merge_mid_inner", "quick"),
                 ("c04_r_rebalance_merge_last_inner", "quick"), ("c04_r_rebalance_merge_first_leaf", "thorough")):
    add("C04", H("btree::node", fn, tier, ["C04.R"], "all separator keys of the parent (2) and of its three children (one byte each); child sizes and the under-full position as named",
                 "parent with 3 children of 3..6 separators, depth 1 (leaf children) or 2 (inner children); unwind 12", 900, 4, unwind=12, stubs=ENV + NODEC, replay="solver-trace-only"))
PROPS["C04"]["functions"] += ["btree::node::Node::rebalance (borrow from left / right sibling, merge; children by contract)", "Node::{set_separator, set_child, remove_child, remove_separator, write_child, has_separator, last_separator_index}"]

# ---- C14.W / C09.N: HashColumn::write_plan glue between value tables and index (callees by contract)
WPC = GETC + ["stub: Column::{write_existing_value_plan, write_new_value_plan} -> symbolic outcome (updated in place / moved to a symbolic address / removed), calls recorded",
              "stub: IndexTable::{write_insert_plan, write_remove_plan} -> calls recorded; the first k insertions (k symbolic in 0..=2) answer NeedReindex"]
_w = (("c14_w_existing_set_in_current", "quick", "C14.W"), ("c14_w_existing_set_in_queued", "quick", "C14.W"), ("c14_w_existing_dereference_in_current", "thorough", "C14.W"),
      ("c14_w_existing_dereference_in_queued", "quick", "C14.W"), ("c14_w_existing_reference_in_current", "thorough", "C14.W"), ("c09_n_new_key_set_grows_index", "quick", "C09.N"),
      ("c14_w_missing_reference", "thorough", "C14.W"), ("c14_w_missing_dereference", "quick", "C14.W"), ("c14_w_missing_tree_op", "thorough", "C14.W"))
for pid in ("C14", "C09", "C07"):
    for fn, tier, lab in _w:
        if pid == "C09" and lab != "C09.N" and "queued" not in fn:
            continue
        if pid == "C07" and ("set" in fn or "tree" in fn):
            continue
        add(pid, H("column", fn, tier, [lab], "key, slot of the existing entry, outcome of the value operation, new address, number of full pages met (0..=2)",
                   "current index of 18 bits, queue of older 16/17-bit indexes; one write_plan call; unwind 12", 900, 4, unwind=12, stubs=ENV + WPC, replay="solver-trace-only"))
PROPS["C14"]["functions"] += ["HashColumn::{write_plan, write_plan_existing, write_plan_new, trigger_reindex} (value-table and page operations by contract)"]
PROPS["C09"]["functions"] += ["HashColumn::{write_plan, write_plan_new, trigger_reindex} (growth on a full page)"]
PROPS["C07"]["functions"] += ["HashColumn::{write_plan, write_plan_existing} (reference / dereference glue)"]
# ---- C04.I / C04.D: Node::change (Set / Dereference) and remove_last on a two-level tree held by the harness
TREEC = NODEC + ["stub: Node::create_separator -> separator with the key and a fresh value address (existing address kept on overwrite)",
                 "stub: Column::write_existing_value_plan (Dereference of a btree value) -> value released, call recorded"]
_c04_tree = (("c04_d_remove_root_separator_minimal", "quick", "C04.D"), ("c04_d_remove_root_separator_spare", "thorough", "C04.D"), ("c04_d_remove_last_minimal_leaves", "quick", "C04.D"),
             ("c04_d_remove_last_borrow", "thorough", "C04.D"), ("c04_d_remove_from_minimal_middle_leaf", "thorough", "C04.D"), ("c04_d_remove_from_minimal_first_leaf", "thorough", "C04.D"),
             ("c04_d_remove_from_minimal_last_leaf", "thorough", "C04.D"), ("c04_d_remove_from_leaf_with_spare", "thorough", "C04.D"),
             ("c04_i_insert_into_full_middle_leaf", "thorough", "C04.I"), ("c04_i_insert_into_full_first_leaf", "thorough", "C04.I"), ("c04_i_insert_into_full_last_leaf", "thorough", "C04.I"),
             ("c04_i_insert_into_leaf_with_room", "thorough", "C04.I"), ("c04_i_overwrite_root_separator", "quick", "C04.I"))
for fn, tier, lab in _c04_tree:
    heavy = "leaf" in fn and "last_minimal" not in fn
    add("C04", H("btree::node", fn, tier, [lab], "all leaf keys (one byte each, strictly increasing in order); root separators 100 / 200 and the operated key concrete (the descent is concrete, the slot inside the leaf symbolic)",
                 "root with 2 separators and 3 leaves of 4..8 separators; one Node::change / remove_last call; unwind 32", 3600 if heavy else 900, 22 if heavy else 4, unwind=32, stubs=ENV + TREEC, replay="solver-trace-only"))
PROPS["C04"]["functions"] += ["btree::node::Node::{change, insert, insert_node, on_existing, remove_last, need_rebalance, split} on a two-level tree (children, node writes and value writes by contract)"]
PROPS["C04"]["bounds"] += "; two-level trees: root with 2 separators over 3 leaves (4..8 separators each), one insertion / removal / remove_last, rebalance cases borrow-left / borrow-right / merge for leaf and inner children"

# ======================================================================================== round 4
# ---- C04.T / C14.T: BTree::write_sorted_changes (tree header glue: depth, root address, release of a replaced root)
ROOTC = ["stub: Node::change -> script of outcomes per pass over the root (nothing / root split with a promoted separator / root under-full); C04.I, C04.D, C04.R decide the real function",
         "stub: BTree::fetch_root, Node::fetch_child -> the harness's root (one separator, children 200/201) and child node",
         "stub: BTreeTable::write_node_plan -> records (node, node id), new node gets a fresh address, rewritten node stays or moves (symbolic); unchanged node is not written",
         "stub: BTreeTable::write_plan_remove_node -> records the released address"]
_c04_t = (("c04_t_root_split_adds_level", "quick"), ("c04_t_first_root_split", "thorough"), ("c04_t_root_emptied_loses_level", "quick"), ("c04_t_root_underfull_keeps_level", "thorough"),
          ("c04_t_root_plain", "thorough"), ("c04_t_first_root_created", "thorough"), ("c04_t_two_ops_second_loses_level", "thorough"), ("c04_t_two_ops_split_then_deeper", "quick"))
for fn, tier in _c04_t:
    add("C04", H("btree", fn, tier, ["C04.T"], "recorded depth 0..=6, whether a rewritten node moves, whether an unremarkable pass marks the root changed; outcome script and number of operations as named",
                 "one write_sorted_changes call over 1-2 operations; unwind 12", 600, 3, unwind=12, stubs=ENV + ROOTC, replay="solver-trace-only"))
for fn, tier in (("c04_t_root_emptied_loses_level", "quick"), ("c04_t_two_ops_second_loses_level", "thorough"), ("c04_t_root_split_adds_level", "thorough")):
    add("C14", H("btree", fn, tier, ["C14.T"], "as for C04.T", "one write_sorted_changes call; unwind 12", 600, 3, unwind=12, stubs=ENV + ROOTC, replay="solver-trace-only"))
PROPS["C04"]["functions"] += ["btree::BTree::write_sorted_changes (growth and loss of a level, recorded depth and root address; node work by contract)", "Node::need_remove_root"]
PROPS["C14"]["functions"] += ["btree::BTree::write_sorted_changes (a replaced root node is released exactly once)"]
PROPS["C04"]["bounds"] += "; tree header glue: one write_sorted_changes call over 1-2 operations with every outcome of the pass over the root, depth 0..=6"

# ---- C20.W: the index walk behind migration (HashColumn::iter_index_internal)
WALKC = ["stub: IndexTable::entries -> the harness's two sparse pages (live entries at slots 0, 5, 63 / 1, 2, 40; holes before, between and after)",
         "stub: ValueTable::get_with_meta -> the harness's value store (symbolic reference count and 26-byte key tail per value; one value optionally missing)",
         "stub: ValueTable::dump_entry -> empty"]
for fn, tier in (("c20_w_index_walk_last_two_pages", "quick"), ("c20_w_index_walk_last_page", "thorough"), ("c20_w_index_walk_missing_value", "quick"), ("c20_w_index_walk_stopped", "thorough")):
    add("C20", H("column", fn, tier, ["C20.W"], "reference count:u32 and key tail:[u8;26] of each of 6 values; which value is missing / when the callback stops as named",
                 "index of 16 bits, walk over its last 1-2 pages (page loop and slot loop are real code), 6 live entries at concrete slots; unwind 66", 900, 3, unwind=66,
                 stubs=ENV + WALKC, replay="solver-trace-only"))
PROPS["C20"]["functions"] += ["HashColumn::iter_index_internal (page walk, key reconstruction, corrupted-entry reporting, early stop; page reads and value reads by contract)"]
PROPS["C20"]["bounds"] += "; index walk: the last two pages of a 16-bit index with 6 live entries at concrete slots, every reference count and key tail"
PROPS["C20"]["outside"] = "migrate() itself (per-rc re-commit, batching at 10240, column selection, file copies / moves, in-place overwrite), the destination commit pipeline, file-name matching (core::fmt)"

# ---- C04.H: the tree header record
HDRC = ["stub: BTree::open / BTree::write_sorted_changes -> any old and any new (root address, depth)", "stub: Column::write_existing_value_plan -> captures (address, operation, value bytes)",
        "stub: Column::get_value -> the 12 header bytes the writer produced (or nothing)"]
add("C04", H("btree", "c04_h_header_follows_root_and_depth", "quick", ["C04.H"], "old and new (root address:u64, depth:u32)", "one BTreeChangeSet::write_plan call with an empty change set; unwind 14", 600, 3, unwind=14,
             stubs=ENV + HDRC, replay="solver-trace-only"))
add("C04", H("btree", "c04_h_header_codec_roundtrip", "quick", ["C04.H"], "root address:u64, depth:u32, header present or not", "loop-free apart from 12-byte copies; unwind 14", 600, 3, unwind=14,
             stubs=ENV + HDRC, replay="solver-trace-only"))
PROPS["C04"]["functions"] += ["btree::commit_overlay::BTreeChangeSet::write_plan (header rewrite)", "btree::Entry::write_header", "BTreeTable::btree_header"]

# ---- C12.O3b (iosub build): DbInner::clean_logs
O3B = IOSUB + ["stub: Log::num_dirty_logs -> the late log file (appended by another worker while the tables are flushed) is counted from the second call on; it sits at the back of the queue, Log::clean_logs drains from the front",
               "stub: TableFile::flush -> event"]
for fn, tier in (("c12_o3b_db_clean_logs_q1", "thorough"), ("c12_o3b_db_clean_logs_q1_race", "quick"), ("c12_o3b_db_clean_logs_q2_race", "thorough"), ("c12_o3b_db_clean_logs_q2_nosync", "thorough")):
    add("C12", H("db", fn, tier, ["C12.O3"], "none beyond the configuration named (number of dirty logs, a further log becoming dirty during the flush, sync_data)",
                 "one-column database (3 value tables), one DbInner::clean_logs call; unwind 26", 1500, 5, variant="iosub", unwind=26, stubs=ENV + FEV + TFILE + O3B, replay="solver-trace-only"))
PROPS["C12"]["functions"] += ["DbInner::clean_logs (every table of every column flushed before the first truncation; only logs counted before the flush are truncated)", "Column::flush / HashColumn::flush / ValueTable::flush (call order)"]
PROPS["C12"]["bounds"] += "; DbInner::clean_logs on a one-column database with 1-2 dirty logs, with and without a log becoming dirty during the flush, sync_data on/off"

# ---- C06.M: overwrite into another size class
TMC = ["stub: ValueTable::{write_replace_plan, write_remove_plan, write_insert_plan} -> record (table, slot, length) and assert the tables' precondition (fixed table: value fits one entry; multipart table: value needs a chain); their byte-level effect is C06.S2-S4"]
for fn, tier in (("c06_m_len2_from_fixed64", "thorough"), ("c06_m_len2_from_multipart", "quick"), ("c06_m_len4_from_fixed64", "thorough"), ("c06_m_len5_from_fixed32", "quick"), ("c06_m_len36_from_multipart", "thorough"),
                 ("c06_m_len37_from_fixed64", "quick"), ("c06_m_len37_from_multipart", "thorough"), ("c06_m_len8_from_fixed64", "thorough")):
    add("C06", H("column", fn, tier, ["C06.M"], "key, new value bytes, old slot 1..8, slot handed out by the insertion; new length and old size class as named",
                 "3 tables {32, 64, multipart 64}; one write_existing_value_plan(Set) call on a plain column; unwind 102", 900, 3, unwind=102, stubs=ENV + TMC, replay="solver-trace-only"))
PROPS["C06"]["functions"] += ["Column::write_existing_value_plan (Set arm: in place vs. release + insert into the size class of the new value)"]
PROPS["C06"]["outside"] = PROPS["C06"]["outside"].replace("column-level move between tiers, ", "")

# ---- C04.C / C04.M: BTreeIterator
ITC = ["stub: BTreeIterState::{seek, next} -> cursor over the in-order key list (contract stated in harness/btree_iter.rs)", "stub: BTree::open -> empty tree stamped with the requested record id",
       "stub: CommitOverlay::{btree_next, btree_prev} -> first / last overlay key in the range named by LastKey (std's BTreeMap range queries are not executed)"]
for fn, tier in (("c04_c_record_ids_bump_last_back", "quick"), ("c04_c_record_ids_bump_seek_fwd", "thorough"), ("c04_c_record_ids_fwd_bump_back", "thorough"), ("c04_c_record_ids_bump_first_fwd", "thorough")):
    add("C04", H("btree::iter", fn, tier, ["C04.C"], "seek key", "empty tree and overlay; two iterator calls, a record enacted before the named one; unwind 8", 600, 3, unwind=8, stubs=ENV + ITC, replay="solver-trace-only"))
for fn, tier in (("c04_m_tree_seek_fwd_back_fwd_b3", "quick"), ("c04_m_tree_last_back_fwd_fwd_b2", "thorough"), ("c04_m_tree_fwd_fwd_bump_fwd_b3", "quick"), ("c04_m_tree_seek_back_bump_back_b3", "thorough"), ("c04_m_tree_fwd_bump_back_b2", "thorough")):
    add("C04", H("btree::iter", fn, tier, ["C04.M", "C04.C"], "tree keys (strictly increasing bytes), seek key", "2-3 tree keys, no overlay entry; 2-4 iterator calls as named; unwind 8", 900, 4, unwind=8, stubs=ENV + ITC, replay="solver-trace-only"))
for fn, tier in (("c04_m_fwd_fwd_b0_o1", "thorough"),):
    add("C04", H("btree::iter", fn, tier, ["C04.M"], "tree key, overlay key, overlay entry is a value or a removal, seek key", "one tree key and one overlay entry; two iterator calls as named; unwind 8", 1800, 6, unwind=8, stubs=ENV + ITC, replay="solver-trace-only"))
PROPS["C04"]["functions"] += ["btree::BTreeIterator::{seek, seek_to_first, seek_to_last, next, prev, iter_inner, next_backend, seek_backend, seek_backend_to_last} (merge of overlay and tree cursors, look-ahead item, re-seek after a record was enacted; the two cursors by contract)"]
PROPS["C04"]["bounds"] += "; iterator: sequences of 2-4 calls over <= 3 tree keys without overlay entry, 2 calls over one tree key and one overlay entry"
PROPS["C04"]["outside"] = "the overlay cursor's BTreeMap range queries (std BTreeMap intractable here), the tree cursor on trees deeper than the contract (harness C04.S did not fit), iterator sequences longer than the bound, multi-level change beyond two levels, iteration under concurrent commits"

# ---- C01 also runs the reindex hand-over harnesses (a key must stay readable while its index entry is being migrated)
for fn, tier in (("c09_r_drop_index_restarts_progress", "quick"), ("c09_r_reindex_batch_last_two_pages", "quick")):
    add("C01", H("column", fn, tier, ["C09.R"], "see C09", "see C09", 600, 4, unwind=66 if "batch" in fn else 12, stubs=ENV + ENTC, replay="solver-trace-only"))

# ---- C14.T1c: claim_entries (node slots claimed at commit time)
for fn, tier in (("c14_t1c_claim_from_list_2_take_1", "quick"), ("c14_t1c_claim_from_list_2_take_3", "quick"), ("c14_t1c_claim_from_list_1_take_1", "thorough"), ("c14_t1c_claim_from_empty_take_2", "thorough")):
    for pid in ("C14", "C10"):
        add(pid, H("table", fn, tier if pid == "C14" else ("quick" if "take_3" in fn else "thorough"), ["C14.T1c"], "fill mark 1..=6, free stack entries (distinct, below the fill mark); stack length and number of claimed slots as named",
                   "in-memory free stack of <= 2 entries, <= 3 slots claimed; unwind 8", 600, 3, unwind=8, stubs=ENV, replay="playback-native-env"))
PROPS["C14"]["functions"] += ["ValueTable::claim_entries (free stack, head, fill mark, dirty header)"]

# ---- C12.F: the real TableFile::flush
add("C12", H("file", "c12_f1_table_flush_syncs_whole_map", "quick", ["C12.F"], "map length 1..=64, capacity counter:u64, file present or not, msync failure",
             "one TableFile::flush call; memmap2::MmapMut::{flush, flush_async, flush_range, flush_async_range} replaced by recorders; unwind 4", 600, 3, unwind=4,
             stubs=LOCK_STUBS + ["stub: memmap2::MmapMut::{flush, flush_async, flush_range, flush_async_range} -> record (synchronous?, offset, length), fail nondeterministically (msync is FFI)",
                                 "model: MmapMut fabricated over a 64-byte static buffer ({ptr, len} layout asserted through len())"], replay="solver-trace-only"))
PROPS["C12"]["functions"] += ["TableFile::flush (one synchronous msync over the whole mapping; failure reported)"]

# ---- C07.R4 / C14.T2c: last dereference releases the whole chain
CRC = ["stub: ValueTable::change_ref -> 'the counter was 1: returns false' (C07.R1 decides the real function for every counter value)"]
for fn, tier in (("c07_r4_last_dereference_frees_chain_len27", "quick"), ("c07_r4_last_dereference_frees_chain_len49", "thorough"), ("c07_r4_last_dereference_frees_chain_len71", "thorough"), ("c07_r4_last_dereference_frees_single_len8", "thorough")):
    for pid in ("C07", "C14"):
        add(pid, H("table", fn, tier, ["C07.R4", "C14.T2c"], "value bytes, compressed flag; the specified layout of a value of the named length with counter 1 at scattered slots of a ref-counted table",
                   "32-byte parts, <= 4 parts; one write_dec_ref call; unwind 102", 900, 4, unwind=102, stubs=ENV + OVERLAY + TFILE + CRC, replay="solver-trace-only"))
PROPS["C07"]["functions"] += ["ValueTable::write_dec_ref (the value's whole chain is released when the count is exhausted)"]
# ---- C10.X: existing children
add("C10", H("column", "c10_x_existing_children_are_counted", "quick", ["C10.X"], "two child addresses:u64, append_only and ref_counted options", "one claim_children_to_data call over two Existing children; unwind 10", 600, 3,
             variant="mapsub", unwind=10, stubs=ENV + MAPSUB, replay="solver-trace-only"))
_ms("C10")
PROPS["C10"]["functions"] += ["HashColumn::claim_children_to_data (Existing children: address packing, one IncrementReference each unless append-only)"]
# ---- C04.E / C04.S1: the real tree cursor, one step from an arbitrary position
add("C04", H("btree::iter", "c04_e_exit_forward", "quick", ["C04.E"], "separators of the inner node n in 1..=8, finished child c in 0..=n", "stack of one inner node and one leaf; one exit call; unwind 10", 600, 3, unwind=10, stubs=ENV, replay="solver-trace-only"))
add("C04", H("btree::iter", "c04_e_exit_backward", "quick", ["C04.E"], "as forward", "one exit call; unwind 10", 600, 3, unwind=10, stubs=ENV, replay="solver-trace-only"))
PROPS["C04"]["functions"] += ["btree::iter::BTreeIterState::exit (every node size 1..=8 and every finished child)"]

add("C10", H("column", "c10_n2_root_256_existing_children_rejected", "quick", ["C10.N2"], "none (256 existing children)", "unwind 260", 900, 4, variant="mapsub", unwind=260, stubs=ENV + MAPSUB, replay="solver-trace-only"))
_ms("C10")

# ---- C13.V: dispatch of a record's actions to the tables of a hash column
VPC = ["stub: IndexTable::validate_plan, ValueTable::validate_plan, RefCountTable::validate_plan -> record (table, page/slot); C13.P2 decides the real functions"]
for fn, tier in (("c13_v_ref_count_action_without_table", "quick"), ("c13_v_index_action_too_old", "quick"), ("c13_v_index_action_current", "thorough"), ("c13_v_index_action_queued", "thorough"),
                 ("c13_v_value_action", "thorough"), ("c13_v_marker_and_drop_actions", "quick")):
    add("C13", H("column", fn, tier, ["C13.V"], "page / slot number:u64, index size or size tier of the table named by the action", "hash column with an 18-bit index (queued 16/17-bit indexes where named), 3 value tables, no ref-count table; one validate_plan call; unwind 12",
                 900, 4, unwind=12, stubs=ENV + VPC, replay="solver-trace-only"))
PROPS["C13"]["functions"] += ["HashColumn::validate_plan (dispatch: unknown / too old / missing tables are Corruption, never a panic)"]

# ---- C08.A4: commit_changes on a multitree column (reports the known finding of DESIGN 10.9 on the unchanged tree)
A4C = ["stub: HashColumn::claim_tree_values -> counts the claim, returns a two-byte root (C10 decides the real function)", "stub: column::hash_key -> first key byte", "stub: DbInner::get -> no such root",
       "stub: DbInner::commit_raw -> counts the call (C08.A2 decides the real function)"]
add("C08", H("db", "c08_a4_refused_transaction_keeps_no_claim", "thorough", ["C08.A4", "C08.A4r", "C08.A4q"], "append_only option; transaction [InsertTree(empty node), Set] on a multitree column (operation kinds are not constants for symbolic execution: every arm of the loop is explored)",
             "struct-literal DbInner with one multitree column; one commit_changes call; unwind 3 + unwindset memcmp.0:34", 2700, 28, variant="mapsub", unwind=3, cbmc_args=["--unwindset", "memcmp.0:34"],
             stubs=ENV + MAPSUB + A4C, replay="solver-trace-only"))
_ms("C08")
PROPS["C08"]["functions"] += ["DbInner::commit_changes (multitree arm: side effects taken before the transaction is known to be acceptable)"]
PROPS["C08"]["outside"] = PROPS["C08"]["outside"].replace("side effects taken before commit_raw is reached by commit_changes on multitree columns (claimed node slots, queued-dereference counters); ", "the queued-dereference counter of a refused DereferenceTree (the claimed-slot half of the same defect is the known finding C08.A4); ")

# ---- memory classes from measurement: the registered class is an upper bound chosen before the harness was ever run; where a
# run on the unchanged tree recorded the peak resident memory of the whole process group (lib/measured_rss_mb.json, refreshed
# by lib/calibrate.py from the evidence files), the admission class is 1.6 x that peak + 1 GB (never above the registered
# class). The address-space limit of a run stays 2 x registered class + 8 GB, so a changed tree that needs more memory is
# not cut short by this.
import json as _json, os as _os, math as _math
try:
    _meas = _json.load(open(_os.path.join(_os.path.dirname(_os.path.abspath(__file__)), "measured_rss_mb.json")))
except Exception:
    _meas = {}
for _pid, _hs in _H.items():
    for _h in _hs:
        _h["mem_limit_gb"] = _h["mem_gb"] * 2 + 8
        _p = _meas.get(_h["name"])
        if _p:
            _h["mem_gb"] = min(_h["mem_gb"], max(2, int(_math.ceil(1.6 * _p / 1024.0 + 1))))


# ---- thorough tier = harnesses seen to finish. A thorough-tier harness stays in the thorough command only if lib/validated.json
# (built by lib/validate_list.py from evidence files and development logs of runs on the unchanged tree) lists a run that came
# back SUCCESSFUL with all cover witnesses satisfied; otherwise its tier becomes "unvalidated": still runnable with --only, not
# part of any registered command. A thorough command must never turn INCONCLUSIVE on the unchanged tree because of a harness
# that was written but never seen to terminate within its budget. (Harnesses that report a listed known finding are kept.)
try:
    _valid = set(_json.load(open(_os.path.join(_os.path.dirname(_os.path.abspath(__file__)), "validated.json"))))
except Exception:
    _valid = None
_KNOWN_FINDING_HARNESSES = {"db::verif_kani_ms::c08_a4_refused_transaction_keeps_no_claim"}
if _valid is not None:
    for _pid, _hs in _H.items():
        for _h in _hs:
            if _h["tier"] == "thorough" and not _h.get("twin") and _h["name"] not in _valid and _h["name"] not in _KNOWN_FINDING_HARNESSES:
                _h["tier"] = "unvalidated"
