#!/usr/bin/env python3
"""Targeted run of selected harnesses against one seeded change (development tool; not used by any registered check).

usage: seed_probe.py <seed-id> <property> <harness-substring> [<property> <harness-substring> ...]
Copies /repo's working tree, applies /verif/seeded/<id>/patch.diff, runs `bin/check <property> --only <substring>` on the copy
(evidence and replays go to a scratch directory), prints the verdict lines and records them in the seed's meta.json under
detected_by.targeted.
"""
import json, os, subprocess, sys, tempfile, shutil, time
VERIF = os.path.dirname(os.path.dirname(os.path.abspath(__file__)))
sid = sys.argv[1]
pairs = list(zip(sys.argv[2::2], sys.argv[3::2]))
d = os.path.join(VERIF, "seeded", sid)
base = tempfile.mkdtemp(prefix="seedprobe.%s." % sid, dir="/tmp")
wt = os.path.join(base, "repo")
runs = []
try:
    subprocess.check_call(["rsync", "-a", "--exclude", "/target", "--exclude", "/.git", "/repo/", wt + "/"])
    p = subprocess.run(["patch", "-p1", "-s", "-i", os.path.join(d, "patch.diff")], cwd=wt, stdout=subprocess.PIPE, stderr=subprocess.STDOUT, text=True)
    if p.returncode != 0:
        print("patch failed", p.stdout); sys.exit(3)
    for prop, only in pairs:
        env = dict(os.environ); env["VERIF_REPO"] = wt
        t0 = time.time()
        q = subprocess.run([os.path.join(VERIF, "bin", "check"), prop, "--only", only, "--evidence-dir", os.path.join(base, "ev")], cwd=VERIF, env=env, stdout=subprocess.PIPE, stderr=subprocess.PIPE, text=True)
        lines = [l for l in q.stdout.splitlines() if l.startswith(("VIOLATION", "  (", "INCONCLUSIVE", "KNOWN-FINDING"))]
        runs.append({"check": prop, "only": only, "exit": q.returncode, "wall_s": round(time.time() - t0), "lines": lines[:8], "summary": q.stdout.strip().splitlines()[-1] if q.stdout.strip() else ""})
        print(sid, prop, only, "exit", q.returncode, round(time.time() - t0), "s", flush=True)
        for l in lines[:6]: print("    ", l[:230], flush=True)
finally:
    shutil.rmtree(base, ignore_errors=True)
mp = os.path.join(d, "meta.json")
meta = json.load(open(mp))
if not isinstance(meta.get("detected_by"), dict): meta["detected_by"] = {}
verdict = "detected" if any(r["exit"] == 1 for r in runs) else ("inconclusive" if any(r["exit"] == 2 for r in runs) else "missed")
commit = subprocess.run(["git", "-C", VERIF, "rev-parse", "--short", "HEAD"], stdout=subprocess.PIPE, text=True).stdout.strip()
meta["detected_by"]["targeted"] = {"verdict": verdict, "runs": runs, "verif_commit": commit}
json.dump(meta, open(mp, "w"), indent=1)
print(sid, "=>", verdict)
