#!/usr/bin/env python3
"""Runner for the solver-based checks of parity-db (DESIGN.md section 5).

check <ID> [--tier quick|thorough] [--only <harness-substring>] [--keep] [--jobs N]

* copies /repo's current working tree and /verif/harness to a scratch directory,
* appends the cfg(kani) harness modules to the source files they exercise,
* runs cargo kani (CBMC + CaDiCaL) once per harness, several in parallel,
* parses verdicts / failed checks / cover witnesses / solver statistics,
* replays counterexamples natively (concrete playback) before reporting them,
* writes /verif/evidence/<ID>.json and prints VIOLATION / KNOWN-FINDING / INCONCLUSIVE lines.
Exit codes: 0 held, 1 violation (reproduced or solver-trace-only as labelled), 2 inconclusive.
"""
import json, os, re, shutil, subprocess, sys, tempfile, time, threading, resource, signal
from concurrent.futures import ThreadPoolExecutor

VERIF = os.path.dirname(os.path.dirname(os.path.abspath(__file__)))
REPO = os.environ.get("VERIF_REPO", "/repo")
HARNESS_DIR = os.path.join(VERIF, "harness")
REGISTRY = os.path.join(HARNESS_DIR, "registry.json")
KNOWN = os.path.join(VERIF, "known_findings.txt")

# source file -> harness module file (appended as `#[cfg(kani)] #[path=..] pub mod verif_kani;`)
INJECT = {
    "src/index.rs": "index.rs",
    "src/table.rs": "table.rs",
    "src/file.rs": "file.rs",
    "src/log.rs": "log.rs",
    "src/column.rs": "column.rs",
    "src/db.rs": "db.rs",
    "src/stats.rs": "stats.rs",
    "src/ref_count.rs": "ref_count.rs",
    "src/btree/node.rs": "btree_node.rs",
    "src/btree/mod.rs": "btree_mod.rs",
    "src/btree/iter.rs": "btree_iter.rs",
    "src/compress.rs": "compress.rs",
    "src/options.rs": "options.rs",
    "src/migration.rs": "migration.rs",
}

MAPSUB_FILES = ["src/db.rs", "src/log.rs", "src/column.rs", "src/options.rs"]


def log(msg):
    sys.stderr.write(msg + "\n")
    sys.stderr.flush()


def load_registry():
    with open(REGISTRY) as f:
        return json.load(f)


def load_known():
    findings, fixed = [], []
    if os.path.exists(KNOWN):
        for line in open(KNOWN):
            line = line.strip()
            if not line or line.startswith("#"):
                continue
            if line.startswith("finding:"):
                kv = dict(p.split("=", 1) for p in line[len("finding:"):].split() if "=" in p)
                kv["_line"] = line
                findings.append(kv)
            elif line.startswith("fixed:"):
                fixed.append(line)
    return findings, fixed


# ------------------------------------------------------------------ scratch copy

def make_scratch(variant, keep=False):
    base = os.environ.get("VERIF_SCRATCH") or os.environ.get("TMPDIR") or "/tmp"
    os.makedirs(base, exist_ok=True)
    scratch = tempfile.mkdtemp(prefix="pdbv.%s." % variant, dir=base)
    crate = os.path.join(scratch, "crate")
    hdir = os.path.join(scratch, "harness")
    # copy the current working tree (not HEAD): checks must see uncommitted edits
    subprocess.check_call(["rsync", "-a", "--exclude", "/target", "--exclude", "/.git", "--exclude", "/fuzz",
                           "--exclude", "/admin", REPO + "/", crate + "/"])
    shutil.copytree(HARNESS_DIR, hdir)
    # single-member workspace, offline
    ct = open(os.path.join(crate, "Cargo.toml")).read()
    ct = re.sub(r"\[workspace\].*\Z", "[workspace]\n", ct, flags=re.S)
    open(os.path.join(crate, "Cargo.toml"), "w").write(ct)
    os.makedirs(os.path.join(crate, ".cargo"), exist_ok=True)
    open(os.path.join(crate, ".cargo", "config.toml"), "w").write("[net]\noffline = true\n")
    if not os.path.exists(os.path.join(crate, "Cargo.lock")) and os.path.exists(os.path.join(VERIF, "lib", "Cargo.lock")):
        shutil.copy(os.path.join(VERIF, "lib", "Cargo.lock"), os.path.join(crate, "Cargo.lock"))
    inject(crate, hdir, variant)
    return scratch, crate


def inject(crate, hdir, variant):
    lib = os.path.join(crate, "src", "lib.rs")
    s = open(lib).read()
    s = "#![cfg_attr(kani, recursion_limit = \"1024\")]\n#![cfg_attr(kani, allow(unused, dead_code))]\n#![cfg_attr(kani, feature(core_io_borrowed_buf, read_buf))]\n" + s
    s += "\n#[cfg(kani)]\n#[path = \"%s\"]\n#[macro_use]\npub mod verif_common;\n" % os.path.join(hdir, "common.rs")
    if "mapsub" in variant:
        s += "\n#[cfg(kani)]\n#[path = \"%s\"]\npub mod verif_map;\n" % os.path.join(hdir, "verif_map.rs")
    if "iosub" in variant:
        s += "\n#[cfg(kani)]\n#[path = \"%s\"]\npub mod verif_io;\n" % os.path.join(hdir, "verif_io.rs")
    open(lib, "w").write(s)
    for src, h in INJECT.items():
        hp = os.path.join(hdir, h)
        sp = os.path.join(crate, src)
        if not os.path.exists(hp) or not os.path.exists(sp):
            continue
        with open(sp, "a") as f:
            f.write("\n#[cfg(kani)]\n#[path = \"%s\"]\npub mod verif_kani;\n" % hp)
    if "iosub" in variant:
        iosub(crate)
    if "mapsub" in variant:
        for src, h in MAPSUB_INJECT.items():
            hp = os.path.join(hdir, h)
            if os.path.exists(hp):
                with open(os.path.join(crate, src), "a") as f:
                    f.write("\n#[cfg(kani)]\n#[path = \"%s\"]\npub mod verif_kani_ms;\n" % hp)
        mapsub(crate)


def iosub(crate):
    """Reduce the payload of Error::Io / Error::Locked to its ErrorKind (crate::verif_io::IoErr, DESIGN 10.7). Touches the two
    variant declarations in error.rs and the places that wrap a std::io::Error into them."""
    n = 0
    for root, _d, files in os.walk(os.path.join(crate, "src")):
        for fn in files:
            if not fn.endswith(".rs"):
                continue
            p = os.path.join(root, fn)
            s = o = open(p).read()
            if fn == "error.rs":
                s = s.replace("Io(io::Error),", "Io(crate::verif_io::IoErr),").replace("Locked(io::Error),", "Locked(crate::verif_io::IoErr),")
            s = re.sub(r"map_err\((?:crate::error::)?Error::Io\)", "map_err(crate::verif_io::io)", s)
            s = re.sub(r"map_err\((?:crate::error::)?Error::Locked\)", "map_err(crate::verif_io::locked)", s)
            s = re.sub(r"Err\(e\) => return Err\(Error::Io\(e\)\)", "Err(e) => return Err(Error::Io(e.into()))", s)
            if s != o:
                n += 1
                open(p, "w").write(s)
    return n


MAPSUB_INJECT = {"src/db.rs": "db_ms.rs", "src/log.rs": "log_ms.rs", "src/column.rs": "column_ms.rs"}


def mapsub(crate):
    """Redirect the HashMap/HashSet/hash_map::Entry imports of db.rs, log.rs, column.rs, options.rs to the
    fixed-capacity model crate::verif_map (DESIGN 3.4). Only `use` items and fully qualified paths are touched."""
    for src in MAPSUB_FILES:
        p = os.path.join(crate, src)
        s = open(p).read()
        moved = set()

        def group(m):
            items = [i.strip() for i in m.group(1).split(",") if i.strip()]
            keep = [i for i in items if i not in ("HashMap", "HashSet")]
            for i in items:
                if i in ("HashMap", "HashSet"):
                    moved.add(i)
            return "collections::{%s}" % ", ".join(keep)

        s = re.sub(r"collections::\{([^}]*)\}", group, s)

        def single(m):
            moved.add(m.group(2))
            return m.group(1)
        # `use std::{collections::HashMap, path::Path};` -> drop the item from the group
        s = re.sub(r"([{,]\s*)collections::(HashMap|HashSet)\s*,\s*", single, s)
        s = re.sub(r"use std::collections::(HashMap|HashSet);", lambda m: (moved.add(m.group(1)) or ""), s)
        s = s.replace("std::collections::hash_map::Entry", "crate::verif_map::Entry")
        s = s.replace("std::collections::HashMap", "crate::verif_map::HashMap")
        s = s.replace("std::collections::HashSet", "crate::verif_map::HashSet")
        if moved:
            imp = "use crate::verif_map::{%s};\n" % ", ".join(sorted(moved))
            m = re.search(r"^use ", s, flags=re.M)
            s = s[:m.start()] + imp + s[m.start():]
        open(p, "w").write(s)


# ------------------------------------------------------------------ running kani

RESULT_RE = re.compile(r"^Check (\d+): (.*)$")

def parse_kani_output(out):
    """Return dict(verdict, checks=[{id,status,desc,loc}], covers=[...], stats)."""
    res = {"verdict": None, "failed": [], "covers": [], "stats": {}, "n_checks": 0, "n_success": 0,
           "unwind_fail": False, "unsupported": False}
    lines = out.splitlines()
    cur = None
    for i, ln in enumerate(lines):
        m = RESULT_RE.match(ln.strip())
        if m:
            cur = {"name": m.group(2)}
            continue
        s = ln.strip()
        if cur is not None:
            if s.startswith("- Status:"):
                cur["status"] = s.split(":", 1)[1].strip()
            elif s.startswith("- Description:"):
                cur["desc"] = s.split(":", 1)[1].strip().strip('"')
            elif s.startswith("- Location:"):
                cur["loc"] = s.split(":", 1)[1].strip()
                # end of a check block
                st = cur.get("status", "")
                if ".cover." in cur["name"] or cur["name"].endswith(".cover") or "cover" in cur["name"].split(".")[-2:-1]:
                    res["covers"].append(cur)
                else:
                    res["n_checks"] += 1
                    if st == "SUCCESS":
                        res["n_success"] += 1
                    elif st in ("FAILURE", "UNDETERMINED", "UNREACHABLE"):
                        if st == "FAILURE":
                            res["failed"].append(cur)
                cur = None
        if s.startswith("VERIFICATION:-"):
            res["verdict"] = s.split(":-", 1)[1].strip()
        if "unwinding assertion" in s and "FAILURE" in "".join(lines[max(0, i - 2):i + 1]):
            res["unwind_fail"] = True
        m = re.match(r"Runtime Symex: ([\d.e+-]+)s", s)
        if m: res["stats"]["symex_s"] = float(m.group(1))
        m = re.match(r"Runtime decision procedure: ([\d.e+-]+)s", s)
        if m: res["stats"]["solver_s"] = float(m.group(1))
        m = re.match(r"size of program expression: (\d+) steps", s)
        if m: res["stats"]["steps"] = int(m.group(1))
        m = re.match(r"Generated (\d+) VCC\(s\), (\d+) remaining after simplification", s)
        if m: res["stats"]["vccs"] = int(m.group(1)); res["stats"]["vccs_remaining"] = int(m.group(2))
        m = re.match(r"(\d+) variables, (\d+) clauses", s)
        if m:
            res["stats"]["variables"] = max(res["stats"].get("variables", 0), int(m.group(1)))
            res["stats"]["clauses"] = max(res["stats"].get("clauses", 0), int(m.group(2)))
        m = re.match(r"Verification Time: ([\d.]+)s", s)
        if m: res["stats"]["verification_s"] = float(m.group(1))
        if "unsupported" in s.lower() and "FAILURE" in s:
            res["unsupported"] = True
    return res


def classify_cover(c):
    return c.get("status", "") == "SATISFIED"


def run_one(h, crate, scratch, target_seed, timeout_s, mem_gb, extra_args=None, playback=None):
    """Run cargo kani for one harness in its own target dir (copied from the warm one)."""
    name = h["name"]
    tdir = os.path.join(scratch, "t_" + name.replace("::", "_"))
    if target_seed and os.path.isdir(target_seed) and not os.path.isdir(tdir):
        subprocess.call(["cp", "-a", target_seed, tdir])
    # --no-assertion-reach-checks: Kani's per-assertion reachability probes each come back with a full CBMC trace; with the
    # 32 KiB entry buffers of table.rs that is gigabytes of JSON (probed: 4.3 GB / 10 min vs 48 s). Vacuity is guarded by
    # kani::cover! witnesses and must-fail twins instead.
    cmd = ["cargo", "kani", "-Z", "stubbing", "--harness", name, "--exact", "--target-dir", tdir, "--no-assertion-reach-checks"]
    if h.get("unwind_default"):
        cmd += ["--default-unwind", str(h["unwind_default"])]
    if h.get("solver"):
        cmd += ["--solver", h["solver"]]
    if extra_args:
        cmd += extra_args
    if playback:
        cmd += ["-Z", "concrete-playback", "--concrete-playback=" + playback]
    if h.get("cbmc_args"):
        # must be the last flags
        cmd += ["-Z", "unstable-options", "--cbmc-args"] + list(h["cbmc_args"])
    env = dict(os.environ)
    env["CARGO_NET_OFFLINE"] = "true"
    env.pop("RUSTFLAGS", None)
    logp = os.path.join(scratch, "log_%s%s.txt" % (name.replace("::", "_"), "_pb" if playback else ""))
    t0 = time.time()
    limit = int(mem_gb * 1024 ** 3)

    def pre():
        os.setsid()
        resource.setrlimit(resource.RLIMIT_AS, (limit, limit))

    peak = [0]
    with open(logp, "w") as lf:
        p = subprocess.Popen(cmd, cwd=crate, stdout=lf, stderr=subprocess.STDOUT, env=env, preexec_fn=pre)

        def sample():
            # peak resident memory of the whole process group (cargo-kani driver + cbmc), sampled every 2 s
            while p.poll() is None:
                try:
                    out = subprocess.run(["ps", "-o", "rss=", "-g", str(p.pid)], stdout=subprocess.PIPE, text=True).stdout
                    tot = sum(int(x) for x in out.split() if x.isdigit())
                    peak[0] = max(peak[0], tot)
                except Exception:
                    pass
                time.sleep(2)
        th = threading.Thread(target=sample, daemon=True)
        th.start()
        try:
            rc = p.wait(timeout=timeout_s)
            timed_out = False
        except subprocess.TimeoutExpired:
            timed_out = True
            try:
                os.killpg(p.pid, signal.SIGKILL)
            except ProcessLookupError:
                pass
            p.wait()
            rc = -9
    wall = time.time() - t0
    out = open(logp, errors="replace").read()
    r = parse_kani_output(out)
    r.update({"harness": name, "rc": rc, "wall_s": round(wall, 1), "timed_out": timed_out, "log": logp, "cmd": " ".join(cmd)})
    r["stats"]["peak_rss_mb"] = peak[0] // 1024
    # build errors
    if "error: could not compile" in out or re.search(r"^error(\[E\d+\])?:", out, flags=re.M):
        r["build_error"] = "\n".join([l for l in out.splitlines() if l.startswith("error")][:10])
    if "Status: ERROR" in out or "SAT checker ran out of memory" in out or "std::bad_alloc" in out or "Out of memory" in out:
        r["oom"] = True
    if not playback:
        shutil.rmtree(tdir, ignore_errors=True)
    else:
        r["tdir"] = tdir
    return r


def warm_build(crate, scratch, harness_names):
    """Compile dependencies once (codegen only) so per-harness runs only rebuild the crate."""
    tdir = os.path.join(scratch, "t_warm")
    cmd = ["cargo", "kani", "-Z", "stubbing", "--only-codegen", "--target-dir", tdir, "--harness", harness_names[0], "--exact"]
    env = dict(os.environ)
    env["CARGO_NET_OFFLINE"] = "true"
    env.pop("RUSTFLAGS", None)
    t0 = time.time()
    p = subprocess.run(cmd, cwd=crate, stdout=subprocess.PIPE, stderr=subprocess.STDOUT, env=env, text=True)
    return tdir, p.returncode, p.stdout, time.time() - t0
