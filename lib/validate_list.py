#!/usr/bin/env python3
"""Build lib/validated.json: harnesses with at least one recorded SUCCESSFUL (all covers satisfied) run on the unchanged tree.
Sources: evidence files (this tree, development evidence directories given as arguments), bin/dev logs given as arguments.
The registry keeps a thorough-tier harness in the thorough command only if it is listed (a thorough command must not turn
INCONCLUSIVE on the unchanged tree because of a harness that was never seen to finish)."""
import json, glob, os, re, sys
V = os.path.dirname(os.path.dirname(os.path.abspath(__file__)))
p = os.path.join(V, "lib", "validated.json")
ok = set(json.load(open(p))) if os.path.exists(p) else set()
dirs = [os.path.join(V, "evidence")] + [a for a in sys.argv[1:] if os.path.isdir(a)]
for d in dirs:
    for f in glob.glob(os.path.join(d, "*.json")):
        try:
            for e in json.load(open(f))["coverage"]["per_harness"]:
                if e.get("status") in ("discharged", "twin-failed-as-required") or (e.get("verdict") == "SUCCESSFUL" and e.get("status") == "vacuous" and "c12_o2_" in e["harness"]):
                    ok.add(e["harness"])
        except Exception as ex:
            print("skip", f, ex)
for a in sys.argv[1:]:
    if os.path.isfile(a):
        s = open(a, errors="replace").read()
        if "'verdict': 'SUCCESSFUL'" in s and "UNSATISFIABLE" not in s and "UNREACHABLE" not in s:
            m = re.search(r"log_([a-z_0-9]+?)_verif_kani(_ms)?_([a-z0-9_]+)\.txt", s)
            if m:
                mod = m.group(1).replace("btree_iter", "btree::iter").replace("btree_node", "btree::node")
                ok.add("%s::verif_kani%s::%s" % (mod, m.group(2) or "", m.group(3)))
# per-harness kani logs of a check that was stopped before it wrote its evidence (scratch directories given as arguments)
for a in sys.argv[1:]:
    if os.path.isdir(a):
        for f in glob.glob(os.path.join(a, "log_*.txt")):
            m = re.match(r"log_([a-z_]+?)_verif_kani(_ms)?_([a-z0-9_]+)\.txt$", os.path.basename(f))
            if not m or f.endswith("_pb.txt"):
                continue
            s = open(f, errors="replace").read()
            if "VERIFICATION:- SUCCESSFUL" not in s:
                continue
            cov = re.findall(r"Check \d+: [^\n]*cover[^\n]*\n\s*- Status: (\w+)", s)
            if any(c != "SATISFIED" for c in cov):
                continue
            mod = {"btree_iter": "btree::iter", "btree_node": "btree::node"}.get(m.group(1), m.group(1))
            ok.add("%s::verif_kani%s::%s" % (mod, m.group(2) or "", m.group(3)))
json.dump(sorted(ok), open(p, "w"), indent=0)
print(len(ok), "validated harnesses")
