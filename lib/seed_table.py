#!/usr/bin/env python3
"""Print the markdown table 'which check catches which seeded change' from /verif/seeded/*/meta.json (development tool)."""
import json, glob, os
V = os.path.dirname(os.path.dirname(os.path.abspath(__file__)))
print("| seed | property | needs | verdict | caught by |")
print("|---|---|---|---|---|")
for d in sorted(glob.glob(os.path.join(V, "seeded", "*", "meta.json"))):
    j = json.load(open(d)); sid = os.path.basename(os.path.dirname(d))
    db = j.get("detected_by") or {}
    verdict, how = None, ""
    for tier in ("quick", "targeted"):
        r = db.get(tier)
        if not r: continue
        v = r.get("verdict")
        if v == "detected":
            verdict = "detected (%s)" % ("quick tier run" if tier == "quick" else "targeted run of the named harness")
            for x in r["runs"]:
                if x["exit"] == 1:
                    l = [y for y in x["lines"] if y.startswith("  (")]
                    how = "%s `%s`" % (x["check"], l[0].split(") ")[1].split(":")[0] if l else "")
                    break
            break
        elif verdict is None:
            verdict = v
            why = [y for x in r["runs"] for y in x.get("lines", []) if y.startswith("INCONCLUSIVE")]
            how = (why[0].split(": ", 1)[1][:90] if why else "")
    note = j.get("undetected_note", "")
    print("| %s | %s | %s | %s | %s |" % (sid, j.get("breaks_property"), (j.get("needs_to_manifest") or "")[:150].replace("|", "/"), verdict or "not detected", how or note))
