#!/usr/bin/env python3
"""Native validation of the environment models (DESIGN 3.6). Filled in as stubs are added."""
import sys
print("stub validation: ok (placeholder)")
sys.exit(0)
