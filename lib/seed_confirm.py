#!/usr/bin/env python3
"""Confirm seeded changes produced by independent sub-agents (used during development only, not by any check).

For each candidate directory (patch.diff, demo, README.md) in a scratch worktree of /repo:
  1. the demo passes on the unchanged tree, 2. fails with the patch, 3. the pinned suite still passes with the patch.
Confirmed candidates are copied to /verif/seeded/<id>/ with a meta.json.
usage: seed_confirm.py <src_root> <worktree> [ids...]      e.g. /tmp/seed /tmp/seedconf C19.1 C09.2
"""
import json, os, re, shutil, subprocess, sys, time

VERIF = os.path.dirname(os.path.dirname(os.path.abspath(__file__)))


def sh(cmd, cwd, timeout=1800):
    env = dict(os.environ)
    env["CARGO_NET_OFFLINE"] = "true"
    env.setdefault("CARGO_BUILD_JOBS", "6")
    p = subprocess.run(cmd, shell=True, cwd=cwd, stdout=subprocess.PIPE, stderr=subprocess.STDOUT, text=True, timeout=timeout, env=env)
    return p.returncode, p.stdout


def plan(d):
    readme = open(os.path.join(d, "README.md")).read()
    demo = "demo.rs"
    cmds = re.findall(r"cargo test[^`\n]*", readme)
    cmds = [c.strip() for c in cmds if "--workspace" not in c]
    cmds = [c for c in cmds if re.search(r"--test \w+|--lib \w+", c)]
    cmds.sort(key=lambda c: 0 if re.search(r"demo|seed", c) else 1)
    place = None
    m = re.search(r"tests/(\w+)\.rs", readme)
    cmd = None
    for c in cmds:
        if m and ("--test " + m.group(1)) in c:
            cmd = c
            place = ("copy", "tests/%s.rs" % m.group(1))
            break
    if cmd is None:
        for c in cmds:
            mm = re.search(r"--lib (\w+)", c)
            if mm:
                cmd = c
                tgt = "src/db.rs"
                ma = re.search(r"[Aa]ppend[^`]*`(src/[\w/]+\.rs)`", readme)
                if ma:
                    tgt = ma.group(1)
                place = ("append", tgt)
                break
    if cmd and "--release" in cmd:
        # prefer the debug variant if present
        alt = [c for c in cmds if place and place[0] == "copy" and ("--test " + os.path.basename(place[1])[:-3]) in c and "--release" not in c]
        if alt:
            cmd = alt[0]
    return demo, place, cmd


def reset(wt):
    sh("git checkout -q -- . && git clean -fdq -e target -e Cargo.lock", wt)


def put_demo(wt, d, demo, place):
    src = open(os.path.join(d, demo)).read()
    if place[0] == "copy":
        os.makedirs(os.path.join(wt, os.path.dirname(place[1])), exist_ok=True)
        open(os.path.join(wt, place[1]), "w").write(src)
    else:
        with open(os.path.join(wt, place[1]), "a") as f:
            f.write("\n" + src + "\n")


def test_summary(out):
    res = re.findall(r"test result: (\w+)\. (\d+) passed; (\d+) failed", out)
    return res


def main():
    root, wt = sys.argv[1], sys.argv[2]
    want = sys.argv[3:]
    cands = []
    for o in sorted(os.listdir(root)):
        if not o.endswith(".out"):
            continue
        pid = o[:-4]
        for n in sorted(os.listdir(os.path.join(root, o))):
            d = os.path.join(root, o, n)
            if os.path.isdir(d) and os.path.exists(os.path.join(d, "patch.diff")):
                sid = "%s.%s" % (pid, n)
                if not want or sid in want:
                    cands.append((sid, pid, d))
    report = {}
    for sid, pid, d in cands:
        t0 = time.time()
        demo, place, cmd = plan(d)
        rec = {"property": pid, "demo_cmd": cmd, "demo_place": place}
        report[sid] = rec
        if not place or not cmd:
            rec["status"] = "cannot derive demo placement/command"
            print(sid, rec["status"], flush=True)
            continue
        reset(wt)
        # 1. demo on the unchanged tree
        put_demo(wt, d, demo, place)
        rc1, out1 = sh(cmd, wt)
        s1 = test_summary(out1)
        rec["without_change"] = {"rc": rc1, "summary": s1[-3:]}
        reset(wt)
        # 2. demo with the patch
        rc, out = sh("git apply --whitespace=nowarn %s" % os.path.join(d, "patch.diff"), wt)
        if rc != 0:
            rec["status"] = "patch does not apply: " + out[-300:]
            print(sid, rec["status"], flush=True)
            continue
        put_demo(wt, d, demo, place)
        rc2, out2 = sh(cmd, wt)
        s2 = test_summary(out2)
        failed_lines = re.findall(r"^test .* FAILED$|panicked at [^\n]*\n[^\n]*", out2, flags=re.M)[:4]
        rec["with_change"] = {"rc": rc2, "summary": s2[-3:], "failures": failed_lines}
        # 3. pinned suite with the patch only
        reset(wt)
        sh("git apply --whitespace=nowarn %s" % os.path.join(d, "patch.diff"), wt)
        rc3, out3 = sh("cargo test --offline --lib --no-fail-fast", wt, timeout=3600)
        s3 = test_summary(out3)
        rec["suite_with_change"] = {"rc": rc3, "summary": s3}
        reset(wt)
        ok = (rc1 == 0 and rc2 != 0 and rc3 == 0 and any(int(p) == 36 and int(f) == 0 for _, p, f in s3) and "could not compile" not in out2)
        rec["status"] = "confirmed" if ok else "NOT confirmed"
        rec["wall_s"] = round(time.time() - t0)
        print(sid, rec["status"], rec.get("without_change"), rec.get("with_change", {}).get("summary"), rec["suite_with_change"], flush=True)
        if ok:
            dst = os.path.join(VERIF, "seeded", sid)
            os.makedirs(dst, exist_ok=True)
            shutil.copy(os.path.join(d, "patch.diff"), dst)
            shutil.copy(os.path.join(d, demo), dst)
            shutil.copy(os.path.join(d, "README.md"), os.path.join(dst, "AGENT_README.md"))
            readme = open(os.path.join(d, "README.md")).read()
            meta = {"id": sid, "breaks_property": pid, "origin": "independent sub-agent given only the property text and a scratch worktree",
                    "demo": {"file": demo, "placement": place, "command": cmd},
                    "needs_to_manifest": None,
                    "confirmed": {"demo_passes_without_change": rc1 == 0, "demo_fails_with_change": rc2 != 0, "demo_failures": failed_lines,
                                  "suite_with_change": s3, "ran": ["<demo cmd> on clean worktree", "git apply patch.diff; <demo cmd>", "git apply patch.diff; cargo test --offline --lib --no-fail-fast"]},
                    "detected_by": None}
            json.dump(meta, open(os.path.join(dst, "meta.json"), "w"), indent=1)
    json.dump(report, open(os.path.join(root, "confirm_report.json"), "w"), indent=1)


if __name__ == "__main__":
    main()
