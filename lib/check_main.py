#!/usr/bin/env python3
"""Driver: see pdbv.py docstring."""
import json, os, re, shutil, subprocess, sys, time, threading, hashlib, argparse
from concurrent.futures import ThreadPoolExecutor, as_completed

sys.path.insert(0, os.path.dirname(os.path.abspath(__file__)))
import pdbv
import registry

LABEL_RE = re.compile(r"\b(C\d\d\.[A-Za-z0-9]+)\b")
MEM_BUDGET_GB = float(os.environ.get("VERIF_MEM_GB", "52"))


class MemGate:
    """Admit harness runs while the sum of their memory classes stays within the budget. The ledger is a file shared by
    all check processes on the machine (flock), so concurrent checks do not oversubscribe the box (no swap here)."""
    LEDGER = os.path.join(os.environ.get("TMPDIR", "/tmp"), "pdbv.memgate.json")

    def __init__(self, budget):
        self.budget = budget

    def _with_ledger(self, fn):
        import fcntl
        fd = os.open(self.LEDGER, os.O_RDWR | os.O_CREAT, 0o666)
        try:
            fcntl.flock(fd, fcntl.LOCK_EX)
            raw = os.read(fd, 1 << 20).decode() or "[]"
            try:
                led = json.loads(raw)
            except ValueError:
                led = []
            alive = []
            for e in led:
                try:
                    os.kill(e["pid"], 0)
                    alive.append(e)
                except OSError:
                    pass
            res, alive = fn(alive)
            os.lseek(fd, 0, 0)
            os.ftruncate(fd, 0)
            os.write(fd, json.dumps(alive).encode())
            return res
        finally:
            os.close(fd)

    def acquire(self, gb):
        gb = min(gb, self.budget)
        tok = "%d.%d.%f" % (os.getpid(), threading.get_ident(), time.time())

        def tryadd(led):
            used = sum(e["gb"] for e in led)
            if used + gb <= self.budget + 1e-9:
                led.append({"pid": os.getpid(), "tok": tok, "gb": gb})
                return True, led
            return False, led
        while not self._with_ledger(tryadd):
            time.sleep(3)
        return tok

    def release(self, tok):
        self._with_ledger(lambda led: (None, [e for e in led if e.get("tok") != tok]))


INCLUDE_UNVALIDATED = False


def select(prop, tier, only, seed):
    hs = []
    for h in registry.harnesses(prop):
        if only and only not in h["name"]:
            continue
        if h.get("twin") or h["tier"] == "quick" or (tier == "thorough" and (h["tier"] == "thorough" or (INCLUDE_UNVALIDATED and h["tier"] == "unvalidated"))) or only:
            hs.append(h)
    # seed-rotated quick members: groups with "rotate" key take one member by seed in quick tier
    if tier == "quick" and not only:
        rot = {}
        for h in registry.harnesses(prop):
            g = h.get("rotate")
            if g:
                rot.setdefault(g, []).append(h)
        for g, members in rot.items():
            pick = members[seed % len(members)]
            if pick not in hs:
                hs.append(pick)
    return hs


def label_of(desc):
    m = LABEL_RE.search(desc or "")
    return m.group(1) if m else None


def is_property_failure(chk):
    d = chk.get("desc", "")
    return True  # every failed check in a harness is a failure: labelled assertion or a panic/overflow in parity-db


def short_loc(loc):
    return re.sub(r"^.*?/crate/", "", loc or "")


def playback(h, crate, scratch, timeout_s, mem_gb):
    """Re-run the failing harness with concrete playback, then run the generated test natively.
    Returns dict(reproduced: bool|None, detail, test_code)."""
    r = pdbv.run_one(h, crate, scratch, None, timeout_s, mem_gb, playback="print")
    out = open(r["log"], errors="replace").read()
    tests = re.findall(r"(#\[test\]\s*fn (kani_concrete_playback_\w+)\(\) \{.*?\n\})", out, flags=re.S)
    shutil.rmtree(r.get("tdir", ""), ignore_errors=True)
    if not tests:
        return {"reproduced": None, "detail": "no concrete playback test was generated", "tests": []}
    # place the tests in the harness file of the scratch copy and run them natively
    modfile = registry.harness_file(h["name"])
    hp = os.path.join(scratch, "harness", modfile)
    src = open(hp).read()
    names = []
    with open(hp, "a") as f:
        for code, name in tests:
            if name in src or name in names:
                continue
            names.append(name)
            f.write("\n" + code + "\n")
    results = []
    env = dict(os.environ)
    env["CARGO_NET_OFFLINE"] = "true"
    env["RUSTFLAGS"] = "--cfg verif_native"
    reproduced = False
    for name in names:
        for prof in ([],):
            cmd = ["cargo", "kani", "playback", "-Z", "concrete-playback"] + prof + ["--", name, "--nocapture"]
            # playback rejects --target-dir; keep its build inside the scratch copy via CARGO_TARGET_DIR
            env2 = dict(env)
            env2["CARGO_TARGET_DIR"] = os.path.join(scratch, "t_playback")
            try:
                p = subprocess.run(cmd, cwd=crate, env=env2, stdout=subprocess.PIPE, stderr=subprocess.STDOUT, text=True, timeout=900)
                o = p.stdout
            except subprocess.TimeoutExpired:
                o = "TIMEOUT"
                p = None
            failed = bool(re.search(r"test .*%s.* FAILED|panicked at" % re.escape(name), o))
            ran = "running 1 test" in o
            panic = re.findall(r"panicked at ([^\n]*)\n([^\n]*)", o)
            results.append({"test": name, "profile": "release" if prof else "dev", "ran": ran, "failed_natively": failed,
                            "panic": [short_loc(a) + " " + b.strip() for a, b in panic][:3], "tail": o[-600:] if not ran else ""})
            if ran and failed:
                reproduced = True
    return {"reproduced": reproduced, "tests": [{"name": n, "code": c} for c, n in tests], "native_runs": results}


def run_property(prop, tier, seed, only=None, keep=False, jobs=None, no_replay=False, evidence_dir=None):
    t_start = time.time()
    hs = select(prop, tier, only, seed)
    if not hs:
        print("no harnesses for", prop)
        return 2
    findings, fixed = pdbv.load_known()
    findings = [f for f in findings if f.get("property") == prop]
    by_variant = {}
    for h in hs:
        by_variant.setdefault(h.get("variant", "plain"), []).append(h)
    gate = MemGate(MEM_BUDGET_GB)
    results = []
    scratches = []
    inconclusive = []
    try:
        nworkers = jobs or int(os.environ.get("VERIF_JOBS", "12"))
        pool = ThreadPoolExecutor(max_workers=nworkers)

        def work(args):
            h, crate, scratch, tdir = args
            gb = gate.acquire(h.get("mem_gb", 6))
            try:
                # registered timeouts were measured on an idle machine; the thorough tier runs for hours next to whatever else
                # the machine does, so it allows twice the time before it gives a harness up as inconclusive
                tmo = h.get("timeout", 300) * (2 if tier == "thorough" else 1)
                r = pdbv.run_one(h, crate, scratch, tdir, tmo, h.get("mem_limit_gb", h.get("mem_gb", 6) * 2 + 8))
                r["h"] = h
                r["scratch"] = scratch
                r["crate"] = crate
                pdbv.log("[%s]   %-55s %-12s %6.1fs  clauses=%s" % (prop, h["name"].split("::")[-1], r.get("verdict"), r["wall_s"], r["stats"].get("clauses")))
                return r
            finally:
                gate.release(gb)

        def run_variant(item):
            # the build variants (plain / mapsub / iosub) are prepared concurrently; their harness runs share one worker pool
            variant, vh = item
            scratch, crate = pdbv.make_scratch(variant)
            scratches.append(scratch)
            pdbv.log("[%s] scratch %s (%s), %d harnesses" % (prop, scratch, variant, len(vh)))
            tdir, rc, out, w = pdbv.warm_build(crate, scratch, [vh[0]["name"]])
            if rc != 0:
                errs = [l for l in out.splitlines() if l.startswith("error")]
                pdbv.log(out[-4000:])
                inconclusive.append({"harness": "*build* (%s)" % variant, "why": "build failed: " + "; ".join(errs[:5])})
                return []
            pdbv.log("[%s] warm build (%s) %.0fs" % (prop, variant, w))
            # heavy first
            vh_sorted = sorted(vh, key=lambda h: -h.get("timeout", 300))
            return [pool.submit(work, (h, crate, scratch, tdir)) for h in vh_sorted]

        with ThreadPoolExecutor(max_workers=max(1, len(by_variant))) as vex:
            futs = [f for fl in vex.map(run_variant, list(by_variant.items())) for f in fl]
        for f in futs:
            results.append(f.result())
        pool.shutdown()

        # ---- classification
        violations = []   # (harness result, failed checks)
        discharged = []
        obligations_total = 0
        labels_discharged = set()
        evaluations = 0
        covers_total = covers_sat = 0
        per_harness = []
        twin_ok = True
        for r in results:
            h = r["h"]
            name = h["name"]
            covers = r["covers"]
            csat = sum(1 for c in covers if pdbv.classify_cover(c))
            evaluations += r["n_checks"] + len(covers)
            entry = {"harness": name, "verdict": r.get("verdict"), "wall_s": r["wall_s"], "checks": r["n_checks"],
                     "covers_satisfied": csat, "covers_total": len(covers), "unwind": h.get("unwind"), **r["stats"]}
            status = None
            if h.get("twin"):
                # must-fail twin: vacuity guard
                if r.get("verdict") == "FAILED" and any("TWIN" in (c.get("desc") or "") for c in r["failed"]):
                    status = "twin-failed-as-required"
                else:
                    status = "twin-did-not-fail"
                    twin_ok = False
                    inconclusive.append({"harness": name, "why": "must-fail twin did not fail (vacuous family?) verdict=%s" % r.get("verdict")})
                entry["status"] = status
                per_harness.append(entry)
                continue
            obligations_total += 1
            if r.get("build_error"):
                status = "inconclusive"
                inconclusive.append({"harness": name, "why": "build error: " + r["build_error"][:300]})
            elif r["timed_out"]:
                status = "inconclusive"
                inconclusive.append({"harness": name, "why": "timeout after %ss" % h.get("timeout")})
            elif r.get("verdict") == "SUCCESSFUL":
                if len(covers) and csat < len(covers):
                    status = "vacuous"
                    inconclusive.append({"harness": name, "why": "cover witnesses %d/%d satisfied" % (csat, len(covers))})
                else:
                    status = "discharged"
                    discharged.append(name)
                    for lab in h.get("labels", []):
                        labels_discharged.add((name, lab))
            elif r.get("verdict") == "FAILED":
                real = [c for c in r["failed"] if not (c.get("desc", "").startswith("cover"))]
                if r.get("oom") and not real:
                    status = "inconclusive"
                    inconclusive.append({"harness": name, "why": "solver error / out of memory"})
                elif not real:
                    status = "inconclusive"
                    inconclusive.append({"harness": name, "why": "FAILED without a failed check (see %s)" % r["log"]})
                else:
                    unsup = [c for c in real if "unsupported" in c.get("desc", "").lower() or "not currently supported" in c.get("desc", "").lower()]
                    unw = [c for c in real if "unwinding assertion" in c.get("desc", "")]
                    rest = [c for c in real if c not in unsup and c not in unw]
                    if unsup and not rest:
                        status = "inconclusive"
                        inconclusive.append({"harness": name, "why": "unsupported construct reached: " + unsup[0].get("desc", "")})
                    elif unw and not rest:
                        status = "inconclusive"
                        inconclusive.append({"harness": name, "why": "unwinding bound too small at " + short_loc(unw[0].get("loc"))})
                    else:
                        status = "violated"
                        violations.append((r, rest))
            else:
                status = "inconclusive"
                why = "no verdict (rc=%s%s)" % (r["rc"], ", out of memory" if r.get("oom") else "")
                inconclusive.append({"harness": name, "why": why})
            covers_total += len(covers)
            covers_sat += csat
            entry["status"] = status
            per_harness.append(entry)

        # ---- replay and report
        exit_code = 0
        out_lines = []
        nviol = 0
        replay_root = os.path.join(pdbv.VERIF, "replays") if not evidence_dir else os.path.join(evidence_dir, "replays")
        os.makedirs(os.path.join(replay_root, prop), exist_ok=True)
        reported_known = set()
        for r, failed in violations:
            h = r["h"]
            hname = h["name"].split("::")[-1]
            labels = sorted(set(filter(None, [label_of(c.get("desc")) for c in failed])))
            first = failed[0]
            lab = labels[0] if labels else "panic"
            what = "%s: %s at %s" % (hname, first.get("desc", "")[:160], short_loc(first.get("loc")))
            # known finding?
            kf = None
            for f in findings:
                if f.get("harness") in (hname, h["name"]) and (f.get("label") in labels or (f.get("label") == "panic" and not labels) or f.get("label") == "*"):
                    if "loc" in f and f["loc"] not in short_loc(first.get("loc")):
                        continue
                    kf = f
                    break
            rp = os.path.join(replay_root, prop, "%s.%s.json" % (hname, lab))
            rec = {"property": prop, "harness": h["name"], "labels": labels, "failed_checks": [
                {"desc": c.get("desc"), "loc": short_loc(c.get("loc")), "check": c.get("name")} for c in failed[:20]],
                "kani_cmd": r["cmd"], "inputs": h.get("inputs"), "bounds": h.get("bounds")}
            if kf:
                if kf["_line"] not in reported_known:
                    kwhat = next(("%s: %s at %s" % (hname, c.get("desc", "")[:160], short_loc(c.get("loc"))) for c in failed if label_of(c.get("desc")) == kf.get("label")), what)
                    out_lines.append("KNOWN-FINDING: property=%s %s %s" % (prop, kf.get("label"), kwhat))
                    reported_known.add(kf["_line"])
                rec["known_finding"] = kf["_line"]
                json.dump(rec, open(rp, "w"), indent=1)
                # a listed finding covers its own assertion only: any other failed check of the harness is still a violation
                if kf.get("label") in ("*", "panic"):
                    continue
                failed = [c for c in failed if label_of(c.get("desc")) != kf.get("label")]
                if not failed:
                    continue
                labels = sorted(set(filter(None, [label_of(c.get("desc")) for c in failed])))
                first = failed[0]
                lab = labels[0] if labels else "panic"
                what = "%s: %s at %s" % (hname, first.get("desc", "")[:160], short_loc(first.get("loc")))
                rp = os.path.join(replay_root, prop, "%s.%s.json" % (hname, lab))
                rec = {"property": prop, "harness": h["name"], "labels": labels, "failed_checks": [
                    {"desc": c.get("desc"), "loc": short_loc(c.get("loc")), "check": c.get("name")} for c in failed[:20]],
                    "kani_cmd": r["cmd"], "inputs": h.get("inputs"), "bounds": h.get("bounds")}
            mode = h.get("replay", "playback")
            pb = None
            if not no_replay and mode in ("playback", "playback-native-env"):
                pdbv.log("[%s] replaying %s natively ..." % (prop, hname))
                try:
                    pb = playback(h, r["crate"], r["scratch"], h.get("timeout", 300) * 2, h.get("mem_limit_gb", h.get("mem_gb", 6) * 2 + 8))
                except Exception as e:  # noqa
                    pb = {"reproduced": None, "detail": "playback machinery failed: %r" % (e,)}
                rec["playback"] = pb
            json.dump(rec, open(rp, "w"), indent=1)
            if mode == "solver-trace-only" or no_replay:
                nviol += 1
                exit_code = max(exit_code, 1)
                out_lines.append("VIOLATION property=%s replay=%s" % (prop, rp))
                out_lines.append("  (%s; replay: solver-trace-only) %s" % (lab, what))
            elif pb and pb.get("reproduced"):
                nviol += 1
                exit_code = max(exit_code, 1)
                out_lines.append("VIOLATION property=%s replay=%s" % (prop, rp))
                out_lines.append("  (%s; reproduced natively) %s" % (lab, what))
            else:
                inconclusive.append({"harness": h["name"], "why": "non-reproducing counterexample %s (%s)" % (rp, what)})

        for inc in inconclusive:
            out_lines.append("INCONCLUSIVE property=%s %s: %s" % (prop, inc["harness"].split("::")[-1], inc["why"]))
        if inconclusive and exit_code == 0:
            exit_code = 2

        # ---- evidence
        wall = time.time() - t_start
        pinfo = registry.PROPS[prop]
        samples = []
        for e in per_harness:
            hh = next(h for h in hs if h["name"] == e["harness"])
            samples.append({"harness": e["harness"], "status": e["status"], "symbolic_inputs": hh.get("inputs"),
                            "bounds": hh.get("bounds"), "obligations": hh.get("labels"), "wall_s": e["wall_s"],
                            "clauses": e.get("clauses"), "variables": e.get("variables"), "solver_s": e.get("solver_s"),
                            "symex_s": e.get("symex_s"), "covers": "%d/%d" % (e["covers_satisfied"], e["covers_total"])})
        stubs = sorted(set(s for h in hs for s in h.get("stubs", [])))
        ev = {
            "property_id": prop,
            "tier": tier,
            "seed": seed,
            "level": "model_checking",
            "coverage": {
                "evaluations": evaluations,
                "distinct_nontrivial": len(labels_discharged),
                "rule": "evaluations = solver-decided checks (assertions, panics, overflow/bounds/unwinding checks, cover witnesses) summed over the harnesses run; "
                        "distinct_nontrivial = distinct (harness, labelled obligation) pairs of harnesses that came back SUCCESSFUL with all cover witnesses SATISFIED "
                        "(a harness with an unsatisfied witness, a timeout or an error counts for nothing)",
                "samples": samples,
                "obligations": obligations_total,
                "discharged": len(discharged),
                "checker_cmd": "cargo kani -Z stubbing --harness <name> --exact (Kani 0.68.0, CBMC 6.11.0, CaDiCaL; unwinding assertions on)",
                "trusted_base": ["Kani 0.68 MIR->GOTO translation", "CBMC 6.11 bit-precise encoding + CaDiCaL"] + stubs,
                "functions_encoded": pinfo.get("functions", []),
                "bounds": pinfo.get("bounds", ""),
                "outside_bounds": pinfo.get("outside", ""),
                "covers_satisfied": covers_sat,
                "covers_total": covers_total,
                "twin_failed_as_required": twin_ok,
                "per_harness": per_harness,
                "solver_time_s": round(sum((e.get("solver_s") or 0) for e in per_harness), 2),
                "symex_time_s": round(sum((e.get("symex_s") or 0) for e in per_harness), 2),
                "exhaustive": False,
                "inconclusive": inconclusive,
                "known_findings_reported": sorted(reported_known),
                "encoding": "regenerated on this run from the working tree of %s (rsync copy + appended cfg(kani) harness modules)" % pdbv.REPO,
            },
            "assumptions": pinfo.get("assumptions", []) + ["environment stubs listed in coverage.trusted_base", "single-threaded execution"],
            "wall_s": round(wall, 1),
            "violations": nviol,
        }
        evdir = evidence_dir or os.path.join(pdbv.VERIF, "evidence")
        os.makedirs(evdir, exist_ok=True)
        json.dump(ev, open(os.path.join(evdir, prop + ".json"), "w"), indent=1)
        for l in out_lines:
            print(l)
        print("%s tier=%s: %d/%d harnesses discharged, %d violation(s), %d inconclusive, %.0fs" % (
            prop, tier, len(discharged), obligations_total, nviol, len(inconclusive), wall))
        return exit_code
    finally:
        if not keep:
            for s in scratches:
                shutil.rmtree(s, ignore_errors=True)
        else:
            pdbv.log("kept: " + " ".join(scratches))


def main():
    ap = argparse.ArgumentParser()
    ap.add_argument("prop")
    ap.add_argument("--tier", default=os.environ.get("VERIF_TIER", "quick"), choices=["quick", "thorough"])
    ap.add_argument("--only")
    ap.add_argument("--keep", action="store_true")
    ap.add_argument("--jobs", type=int)
    ap.add_argument("--no-replay", action="store_true")
    ap.add_argument("--list", action="store_true")
    ap.add_argument("--evidence-dir", help="write evidence/replays elsewhere (development runs against patched copies)")
    ap.add_argument("--include-unvalidated", action="store_true", help="development: with --tier thorough also run harnesses that have no recorded successful run yet")
    a = ap.parse_args()
    seed = int(os.environ.get("VERIF_SEED", "0") or 0)
    global INCLUDE_UNVALIDATED
    INCLUDE_UNVALIDATED = a.include_unvalidated
    if a.list:
        for h in registry.harnesses(a.prop):
            print(h["tier"], h["name"])
        return 0
    return run_property(a.prop, a.tier, seed, a.only, a.keep, a.jobs, a.no_replay, a.evidence_dir)


if __name__ == "__main__":
    sys.exit(main())
