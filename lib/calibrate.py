#!/usr/bin/env python3
"""Refresh lib/measured_rss_mb.json from the evidence files of runs on the unchanged tree (development tool)."""
import json, glob, os
V = os.path.dirname(os.path.dirname(os.path.abspath(__file__)))
p = os.path.join(V, "lib", "measured_rss_mb.json")
out = json.load(open(p)) if os.path.exists(p) else {}
for f in sorted(glob.glob(os.path.join(V, "evidence", "*.json"))):
    for e in json.load(open(f))["coverage"]["per_harness"]:
        if e.get("peak_rss_mb") and e.get("status") in ("discharged", "twin-failed-as-required"):
            out[e["harness"]] = max(out.get(e["harness"], 0), e["peak_rss_mb"])
json.dump(out, open(p, "w"), indent=1, sort_keys=True)
print(len(out), "harnesses")
