#!/usr/bin/env python3
"""Run the registered checks against each seeded change (development tool; not used by any registered check).

For every /verif/seeded/<id>/patch.diff: copy of /repo HEAD (scratch worktree, outside /repo and /verif) + patch,
then `bin/check <property> --tier <tier>` with VERIF_REPO pointing at the patched copy. Records exit code and the
VIOLATION / INCONCLUSIVE lines in /verif/seeded/<id>/meta.json ("detected_by") and /verif/seeded/matrix.json.

usage: seed_matrix.py [--tier quick] [--jobs 2] [--props C06,C14] [ids...]
"""
import json, os, re, shutil, subprocess, sys, tempfile, time, argparse
from concurrent.futures import ThreadPoolExecutor

VERIF = os.path.dirname(os.path.dirname(os.path.abspath(__file__)))
SEEDED = os.path.join(VERIF, "seeded")
REPO = "/repo"

# additional properties whose checks are also run against a seed (the seed's own property always runs first)
ALSO = {
    "C07.3": ["C01"], "C01.3": ["C07"], "C10.1": ["C14"], "C06.3": ["C14"], "C14.1": ["C06"], "C14.2": ["C10"], "C10.2": ["C09"],
    "C08.2": ["C10"], "C10.3": ["C08"], "C19.3": ["C09"], "C13.3": [], "C01.2": [], "C07.2": [], "C07.1": ["C09"], "F10": ["C08"],
}


def run_seed(sid, tier, props_override=None):
    d = os.path.join(SEEDED, sid)
    meta = json.load(open(os.path.join(d, "meta.json")))
    prop = meta["breaks_property"]
    props = props_override or ([prop] + ALSO.get(sid, []))
    base = tempfile.mkdtemp(prefix="seedrepo.%s." % sid, dir=os.environ.get("TMPDIR", "/tmp"))
    wt = os.path.join(base, "repo")
    res = {"seed": sid, "property": prop, "runs": []}
    try:
        subprocess.check_call(["rsync", "-a", "--exclude", "/target", "--exclude", "/.git", REPO + "/", wt + "/"])
        p = subprocess.run(["patch", "-p1", "-s", "-i", os.path.join(d, "patch.diff")], cwd=wt, stdout=subprocess.PIPE, stderr=subprocess.STDOUT, text=True)
        if p.returncode != 0:
            res["error"] = "patch failed: " + p.stdout[-300:]
            return res
        for pr in props:
            env = dict(os.environ)
            env["VERIF_REPO"] = wt
            t0 = time.time()
            q = subprocess.run([os.path.join(VERIF, "bin", "check"), pr, "--tier", tier, "--evidence-dir", os.path.join(base, "ev")], cwd=VERIF, env=env,
                               stdout=subprocess.PIPE, stderr=subprocess.PIPE, text=True)
            lines = [l for l in q.stdout.splitlines() if l.startswith(("VIOLATION", "  (", "INCONCLUSIVE", "KNOWN-FINDING"))]
            res["runs"].append({"check": pr, "tier": tier, "exit": q.returncode, "wall_s": round(time.time() - t0), "lines": lines[:12],
                                "summary": q.stdout.strip().splitlines()[-1] if q.stdout.strip() else ""})
            if q.returncode == 1:
                break
    finally:
        shutil.rmtree(base, ignore_errors=True)
    return res


def main():
    ap = argparse.ArgumentParser()
    ap.add_argument("ids", nargs="*")
    ap.add_argument("--tier", default="quick")
    ap.add_argument("--jobs", type=int, default=2)
    ap.add_argument("--props")
    a = ap.parse_args()
    ids = a.ids or sorted(x for x in os.listdir(SEEDED) if os.path.isdir(os.path.join(SEEDED, x)))
    po = a.props.split(",") if a.props else None
    mpath = os.path.join(SEEDED, "matrix.json")
    matrix = json.load(open(mpath)) if os.path.exists(mpath) else {}
    with ThreadPoolExecutor(max_workers=a.jobs) as ex:
        for r in ex.map(lambda s: run_seed(s, a.tier, po), ids):
            sid = r["seed"]
            det = [x for x in r["runs"] if x["exit"] == 1]
            verdict = "detected" if det else ("inconclusive" if any(x["exit"] == 2 for x in r["runs"]) else "missed")
            r["verdict"] = verdict
            matrix.setdefault(sid, {})[a.tier] = r
            json.dump(matrix, open(mpath, "w"), indent=1)
            mp = os.path.join(SEEDED, sid, "meta.json")
            meta = json.load(open(mp))
            meta.setdefault("detected_by", {}) if isinstance(meta.get("detected_by"), dict) else meta.update({"detected_by": {}})
            meta["detected_by"][a.tier] = {"verdict": verdict, "runs": r["runs"]}
            json.dump(meta, open(mp, "w"), indent=1)
            print(sid, verdict, [(x["check"], x["exit"], x["wall_s"]) for x in r["runs"]], flush=True)
            for x in r["runs"]:
                for l in x["lines"][:4]:
                    print("    ", l[:220], flush=True)


if __name__ == "__main__":
    main()
